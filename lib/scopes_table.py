#!/usr/bin/env python3
"""Print the 'measured scopes' table of DESIGN.md 12.2 from evidence/*.json (what the last runs covered)."""
import json
import os

VERIF = os.path.dirname(os.path.dirname(os.path.abspath(__file__)))
print("| prop | tier | TLC model-checking jobs (distinct states) | cases forced through the real code | non-trivial | wall |")
print("|---|---|---|---|---|---|")
for i in range(1, 21):
    pid = "C%02d" % i
    p = os.path.join(VERIF, "evidence", pid + ".json")
    if not os.path.exists(p):
        continue
    e = json.load(open(p))
    c = e["coverage"]
    jobs = "; ".join("%s %s" % (j["job"], j.get("distinct_states", j.get("obligations_proved", ""))) for j in c.get("spec_model_checking_jobs", [])) or "-"
    print("| %s | %s | %s | %s | %s | %.0f s |" % (pid, e["tier"], jobs, c.get("evaluations", ""), c.get("distinct_nontrivial", ""), e["wall_s"]))
