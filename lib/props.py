"""Per-property check definitions."""
import json
import os
import subprocess
import sys
import time

import vlib
from vlib import Undecided, log

CHECKS = {}


def check(prop):
    def deco(f):
        CHECKS[prop] = f
        return f
    return deco


class Ctx:
    def __init__(self, prop, tier, seed):
        self.prop = prop
        self.tier = tier
        self.seed = seed
        self.scratch = None
        self.states = 0
        self.transitions = 0
        self.evaluations = 0
        self.nontrivial = 0
        self.violations = []      # dicts: kind, sig, detail, src, text, replay
        self.samples = []
        self.families = {}        # family -> summary dict
        self.diagnostics = {}
        self.mc_jobs = []         # model-checking jobs on the specification itself
        self.sensitivity = []
        self.assumptions = []
        self.exhaustive = True
        self.harness = None
        self.technique = ""

    # ---------------------------------------------------------------- tools
    def get_harness(self):
        if self.harness is None:
            self.harness = vlib.build_harness()
        return self.harness

    def gen_cases(self, family, module="ScopeGen", extra_const=""):
        """TLC as enumerator: the cases of one scope family."""
        d = self.scratch.sub("gen_" + family)
        cfg = 'CONSTANT Family = "%s"\nCONSTANT Tier = "%s"\nCONSTANT OutFile = "cases.ndjson"\n%s' % (
            family, self.tier, extra_const)
        out, st = vlib.run_tlc(d, module, cfg, workers=1, timeout=600, heap="4g")
        p = os.path.join(d, "cases.ndjson")
        if not os.path.exists(p) or "Error" in out and "No error" not in out:
            raise Undecided("scope enumeration failed for %s:\n%s" % (family, vlib.tlc_error_excerpt(out)))
        with open(p) as f:
            cases = [json.loads(l) for l in f if l.strip()]
        if not cases:
            raise Undecided("scope %s is empty" % family)
        return cases

    def replay(self, family, cases, fields, mode="string", want_ast=True, reject_violation=False,
               timeout=30, extra=(), eval_timeout=900, exps=None):
        """Evaluate the specification on the cases (TLC), force them through the
        implementation, compare."""
        t0 = time.time()
        if exps is None:
            exps, st = vlib.eval_cases(self.scratch, cases, timeout=eval_timeout)
            self.states += st["distinct"]
            self.transitions += st["states"]
        t1 = time.time()
        rep = vlib.run_replay(self.get_harness(), self.scratch, self.prop, family, cases, exps, fields,
                              mode=mode, want_ast=want_ast, reject_violation=reject_violation,
                              timeout=timeout, extra=extra)
        t2 = time.time()
        self.absorb(family, rep, tlc_s=t1 - t0, replay_s=t2 - t1)
        return rep

    def absorb(self, family, rep, tlc_s=0.0, replay_s=0.0, allow_rejects=False):
        self.evaluations += rep["evaluations"]
        self.nontrivial += rep["distinct_nontrivial"]
        for v in rep["violations"]:
            v["family"] = family
            self.violations.append(v)
        extra_v = rep["n_violations"] - len(rep["violations"])
        self.families[family] = {
            "programs": rep["programs"], "evaluations": rep["evaluations"],
            "nontrivial": rep["distinct_nontrivial"], "abstained_quirk": rep["abstained_quirk"],
            "rejected_by_compile": rep["rejected_by_compile"], "ast_checked": rep["ast_checked"],
            "ast_mismatch": rep["ast_mismatch"], "other_diffs": rep["other_diffs"],
            "violations": rep["n_violations"], "file_runs": rep.get("file_runs", 0),
            "expected_matches_total": rep.get("expected_matches_total", 0),
            "tlc_s": round(tlc_s, 1), "replay_s": round(replay_s, 1),
        }
        if extra_v > 0:
            self.families[family]["violations_not_listed"] = extra_v
        if rep.get("undecided"):
            self.diagnostics.setdefault("undecided", []).extend(rep["undecided"][:5])
        for s in rep.get("samples", [])[:2]:
            if len(self.samples) < 8:
                self.samples.append({"family": family, **s})
        if not allow_rejects and rep["programs"] > 0 and rep["rejected_by_compile"] * 2 > rep["evaluations"] and rep["n_violations"] == 0:
            raise Undecided("family %s: more than half of the scope was rejected by Compile; the check would be vacuous" % family)

    def add_mc(self, name, stats, what, ok=True):
        self.states += stats.get("distinct", 0)
        self.transitions += stats.get("states", 0)
        self.mc_jobs.append({"job": name, "distinct_states": stats.get("distinct", 0),
                             "states_generated": stats.get("states", 0), "what": what, "ok": ok,
                             "wall_s": round(stats.get("wall_s", 0), 1)})

    # --------------------------------------------------------------- verdict
    def finish(self, wall):
        kfs = vlib.load_known_findings()
        new = []
        hit = {}
        for v in self.violations:
            k = vlib.kf_match(kfs, self.prop, v)
            if k is not None:
                hit.setdefault(k["id"], []).append(v)
            else:
                new.append(v)
        for k in kfs:
            if k.get("status") == "open" and k.get("property") == self.prop:
                n = len(hit.get(k["id"], []))
                print("KNOWN-FINDING: property=%s %s (%s; reproduced %d times in this run)" % (
                    self.prop, k["what"], k["id"], n))
        coverage = {
            "states": max(self.states, 0), "transitions": max(self.transitions, 0),
            "traces_validated_against_impl": self.evaluations,
            "evaluations": self.evaluations, "distinct_nontrivial": self.nontrivial,
            "rule": RULES.get(self.prop, ""),
            "samples": self.samples[:8] or [{"note": "no sample recorded"}],
            "families": self.families, "spec_model_checking_jobs": self.mc_jobs,
            "sensitivity": self.sensitivity, "diagnostics": self.diagnostics,
            "exhaustive": bool(self.exhaustive),
            "known_findings_reproduced": {k: len(v) for k, v in hit.items()},
            "technique": self.technique,
        }
        vlib.write_evidence(self.prop, self.tier, self.seed, "model_checking", coverage, wall, len(new),
                            assumptions=self.assumptions)
        if new:
            seen = set()
            for v in new:
                rp = v.get("replay") or self.save_replay(v)
                if rp in seen:
                    continue
                seen.add(rp)
                print("VIOLATION property=%s replay=%s" % (self.prop, rp))
                log("  [%s/%s] %s :: %s :: text=%s" % (v.get("family"), v.get("kind"), v.get("detail"),
                                                    (v.get("src") or "")[:200], v.get("text")))
            return 1
        log("%s %s: ok, %d evaluations, %d TLC states, %.1fs" % (self.prop, self.tier, self.evaluations, self.states, wall))
        return 0

    def save_replay(self, v):
        d = os.path.join(vlib.VERIF, "replays", self.prop)
        os.makedirs(d, exist_ok=True)
        import hashlib
        h = hashlib.sha1(json.dumps(v, sort_keys=True, default=str).encode()).hexdigest()[:16]
        p = os.path.join(d, h + ".json")
        with open(p, "w") as f:
            json.dump(v, f, indent=1, default=str)
        return p


RULES = {}


def vlib_render_matches(ctx, case, src):
    """does this case render to the given source? (asks the harness)"""
    p = subprocess.run([ctx.get_harness(), "render"], input=json.dumps(case), capture_output=True, text=True)
    return p.returncode == 0 and p.stdout.strip() == src.strip()


def replay_one(ctx, path):
    """Re-run exactly one recorded case through TLC and the implementation.
    Cases of the replay families (a program and a text) are re-run alone; for
    the other families (file systems, sources, variants, configurations,
    traces) the property's check is re-run and the recorded signature looked
    for."""
    with open(path) as f:
        v = json.load(f)
    case = v.get("case") or {}
    if isinstance(case, dict) and "cmds" in case and v.get("text") is not None:
        case = dict(case)
        case.pop("sigma", None)
        case["texts"] = [v["text"]]
        case["id"] = 1
        fields = FIELDS.get(ctx.prop, ["spans", "vars", "num", "loc", "val", "repl", "wf", "panic"])
        rep = ctx.replay("replay", [case], fields, mode=v.get("mode", "string"))
        for x in rep["violations"]:
            print("VIOLATION property=%s replay=%s" % (ctx.prop, path))
            log("  " + x["detail"])
            return 1
        print("replay: no violation on this tree")
        return 0
    CHECKS[ctx.prop](ctx)
    same = [x for x in ctx.violations if x.get("sig") == v.get("sig")]
    kfs = vlib.load_known_findings()
    same = [x for x in same if vlib.kf_match(kfs, ctx.prop, x) is None]
    if same:
        print("VIOLATION property=%s replay=%s" % (ctx.prop, path))
        log("  " + same[0].get("detail", ""))
        return 1
    print("replay: no violation with signature %r on this tree" % v.get("sig"))
    return 0


FIELDS = {
    "C01": ["spans", "panic"],
    "C02": ["spans", "vars", "panic"],
    "C03": ["spans", "vars", "num", "loc", "val", "wf", "panic"],
    "C04": ["spans", "vars", "num", "loc", "val", "repl", "wf", "panic"],
}

RULES["C01"] = ("programs: TLC enumerates spec/Scope.tla C01_* (every construct under every other to depth 2, "
                "subroutines, captures, global patterns with predicates); inputs: all strings over the program's "
                "alphabet up to the tier's length; a case is one (program, text) pair; non-trivial = the "
                "specification expects at least one match; distinct by (source, text)")


@check("C01")
def c01(ctx):
    ctx.technique = ("TLC-evaluated reference semantics (spec/Semantics.tla) replayed into Compile/Run; "
                     "VM.tla o Codegen.tla model-checked to refine it; H1 engine traces validated against VM.tla")
    cases = ctx.gen_cases("C01")
    quick = ctx.tier == "quick"
    # (1) the design: the operational model refines the reference semantics
    sample = [c for c in cases if c["id"] % (5 if quick else 1) == 0]
    mc_vm(ctx, "refine", cap_texts(sample, hi_cap=3 if quick else 4))
    # (2) the binding: every (program, text) of the scope through the real code
    ctx.replay("C01-exhaustive", cases, FIELDS["C01"])
    # whole file / line / word: transcribed from the engine (the documents are silent about starts inside a unit); the
    # expectation is firm, and compared, only on texts where a file, line or word really starts at the attempt
    ctx.replay("C01-whole-units", ctx.gen_cases("C03W"), FIELDS["C01"])
    # named loops find what the unnamed loop finds (minimum, maximum, greedy/fewest; nested named loops)
    ctx.replay("C01-named-loops", ctx.gen_cases("C03N"), FIELDS["C01"])
    # (2b) seeded random programs beyond the structured scope (any nesting up to 9 nodes)
    rc = random_cases(ctx.seed, 400 if quick else 4000, with_caps=False)
    rexps, _, rc = vm_oracle(ctx, "random", rc, max_steps=20000, invariants=("MatchWF", "NoStuck", "StepBound"), drop_expensive=True)
    ctx.replay("C01-seeded-random", rc, FIELDS["C01"], exps=rexps)
    ctx.exhaustive = False
    # (3) the binding at step level: recorded engine runs are behaviours of VM.tla
    tsample = [c for c in cases if c["id"] % (23 if quick else 5) == 0] + \
              [dict(c, id=c["id"] + 200000) for c in ctx.gen_cases("C02") if c["id"] % (9 if quick else 3) == 0]
    if ctx.violations:
        return            # the replays already decided; recording step traces of a deviating engine adds nothing
    res = validate_vm_traces(ctx, "c01", expand_texts(cap_texts(tsample), 30 if quick else 60, ctx.seed))
    if not res["accepted"] and "rejected_case" in res:
        # classify: an observable difference is a verdict, an internal one a diagnostic
        rc = res["rejected_case"]
        probe = [c for c in cap_texts(tsample) if vlib_render_matches(ctx, c, rc["src"])]
        for c in probe[:1]:
            c = dict(c)
            c.pop("sigma", None)
            c["texts"] = [rc["text"]]
            ctx.replay("C01-trace-rejected", [c], FIELDS["C03"])


RULES["C02"] = ("programs: spec/Scope.tla C02_Bodies (captures under or / loops / subroutines / recursion, "
                "back-references); inputs: all strings over the alphabet up to the tier's length; non-trivial = "
                "the specification expects at least one match")


@check("C02")
def c02(ctx):
    ctx.technique = "TLC-evaluated bindings of the successful path (spec/Semantics.tla) replayed into Compile/Run"
    cases = ctx.gen_cases("C02")
    quick = ctx.tier == "quick"
    named = ctx.gen_cases("C02N")
    # the design: frames carry their own bindings (also the per-iteration maps of named loops)
    sample = [c for c in cases if c["id"] % (4 if quick else 1) == 0]
    mc_vm(ctx, "bindings", cap_texts(sample + [dict(c, id=c["id"] + 100000) for c in named], hi_cap=3 if quick else 4),
          what="VM(Codegen(p), t) = reference semantics including environments and nested named-loop maps; every frame restores its own bindings")
    mc_vm(ctx, "sens-SharedEnv", cap_texts([c for c in cases if c["id"] % 10 == 0], hi_cap=3), dev=["SharedEnv"], expect="RefinesSemantics")
    ctx.replay("C02-exhaustive", cases, FIELDS["C02"])
    rc = random_cases(ctx.seed + 7919, 400 if ctx.tier == "quick" else 4000, with_caps=True)
    rexps, _, rc = vm_oracle(ctx, "random", rc, max_steps=20000, invariants=("MatchWF", "NoStuck", "StepBound"), drop_expensive=True)
    ctx.replay("C02-seeded-random", rc, FIELDS["C02"], exps=rexps)
    ctx.exhaustive = False
    # bindings scoped by named loops (per-iteration maps, abandoned iterations)
    ctx.replay("C02-named-loops", named, FIELDS["C02"])


RULES["C03"] = ("all cases of the C01 and C02 scopes, 120 named-loop programs (nested variable maps) and a third of the C14 regex "
                "scope, with the full match record (offsets, numbers, lines, columns, value, variables) compared with the "
                "specification's and the implementation's own output re-checked against the input bytes (MatchWF: slice, "
                "order, no overlap, consecutive numbers, line/column, variables substrings of the value); non-trivial = the "
                "specification expects at least one match")


@check("C03")
def c03(ctx):
    ctx.technique = "MatchWF invariant of the specification + full-record replay + oracle-free re-check"
    for fam in ("C01", "C02"):
        cases = ctx.gen_cases(fam)
        ctx.replay(fam + "-records", cases, FIELDS["C03"])
    # named loops: spans/locations as the unnamed loop; nested variable maps checked by MatchWF only
    ctx.replay("C03-named-loops", ctx.gen_cases("C03N"), ["spans", "num", "loc", "val", "wf", "panic"])
    # whole file / line / word (firm where a file, line or word really starts)
    ctx.replay("C03-whole-classes", ctx.gen_cases("C03W"), FIELDS["C03"])
    # amount clauses: the window keeps the numbers of the whole sequence (consecutive, in order), find and replace
    am = ctx.gen_cases("C04")
    ctx.replay("C03-amounts", [c for c in am if c["id"] >= 300000 or c["id"] % (7 if ctx.tier == "quick" else 2) == 0], FIELDS["C03"])
    # regex literals: the conventional semantics of spec/Regex.tla, full records
    d = ctx.scratch.sub("rxgen")
    out, st0 = vlib.run_tlc(d, "RegexScope", "CONSTANT OutFile = \"cases.ndjson\"\nCONSTANT Tier = \"quick\"\n", workers=1, timeout=300, heap="2g")
    with open(os.path.join(d, "cases.ndjson")) as f:
        rcases = [json.loads(l) for l in f if l.strip()]
    rcases = [c for c in rcases if c["id"] % 3 == 0]
    docs, st = run_sharded_machine(ctx, "EvalRegex", rcases, ["TranslationAgrees", "Emit"])
    ctx.add_mc("EvalRegex", st, "translation = conventional semantics on a third of the regex scope")
    ctx.replay("C03-regex-literals", rcases, FIELDS["C03"], exps=docs)


RULES["C04"] = ("bodies whose occurrences can overlap or abut x every amount clause with s,t,n in 0..4 (quick) "
                "x all strings over the alphabet up to length 6; non-trivial = all-matches sequence non-empty")


@check("C04")
def c04(ctx):
    ctx.technique = "Window(FindAll(all B), amount) from spec/Semantics.tla replayed into find and replace commands"
    cases = ctx.gen_cases("C04")
    quick = ctx.tier == "quick"
    # the scan counters of the engine model: the queue is the window (also with the historical restart-after-skip switch)
    finds = [c for c in cases if c["cmds"][0]["kind"] == "find"]
    sample = finds[::4] if quick else finds
    mc_vm(ctx, "windows", cap_texts(sample, hi_cap=4 if quick else 5),
          what="VM scan counters: out = Window(FindAll(all B), amount) for every amount clause (RefinesSemantics), MatchWF")
    skips = [c for c in cases if c["cmds"][0]["kind"] == "find" and c["cmds"][0]["amt"]["k"] in ("skip", "skiptake")]
    mc_vm(ctx, "sens-SkipAdvancesOneByte", cap_texts(skips[::3], hi_cap=4), dev=["SkipAdvancesOneByte"], expect="RefinesSemantics")
    if not quick:
        # the counter arithmetic for unbounded numbers of matches and amounts, by proof
        d = ctx.scratch.sub("tlaps")
        import shutil
        shutil.copy(os.path.join(vlib.SPEC, "ScanProof.tla"), d)
        try:
            p = subprocess.run(["tlapm", "--threads", "8", "ScanProof.tla"], cwd=d, capture_output=True, text=True, timeout=900)
        except subprocess.TimeoutExpired:
            raise Undecided("tlapm timed out")
        m = re.search(r"All (\d+) obligations proved", p.stdout + p.stderr)
        ctx.mc_jobs.append({"job": "TLAPS:ScanProof", "ok": bool(m), "obligations_proved": int(m.group(1)) if m else 0,
                            "what": "Spec => [](Inv /\\ WindowOf): the kept range of match numbers is the window of the amount clause, for every M, skip, take, last"})
        if not m:
            raise Undecided("tlapm did not prove ScanProof:\n" + (p.stdout + p.stderr)[-1500:])
    ctx.replay("C04-windows", cases, FIELDS["C04"])


# ------------------------------------------------------------------ VM jobs
import itertools
import re


def cap_texts(cases, hi_cap=None, first_cmd_only=True):
    out = []
    for c in cases:
        c = dict(c)
        if hi_cap is not None and "hi" in c:
            c["hi"] = min(c["hi"], hi_cap)
        if first_cmd_only:
            c["cmds"] = c["cmds"][:1]
        out.append(c)
    return out


def mc_vm(ctx, name, cases, dev=(), expect=None, max_steps=5000, workers=None, timeout=900, liveness=False,
          invariants=("RefinesSemantics", "MatchWF", "LineColOK", "NoStuck", "StepBound", "TypeOK"), what="", coverage=False):
    """Model-check spec/VM.tla (the engine as a state machine, run on the code
    spec/Codegen.tla generates) over the given cases.  expect=None: must find
    no error.  expect="RefinesSemantics" etc.: a sensitivity run, TLC must
    report that invariant (or property) violated."""
    d = ctx.scratch.sub("mc_" + name)
    with open(os.path.join(d, "cases.ndjson"), "w") as f:
        for c in cases:
            f.write(json.dumps(c, separators=(",", ":")) + "\n")
    devs = "{" + ", ".join('"%s"' % x for x in dev) + "}"
    cfg = ("SPECIFICATION Spec\nCONSTANT CaseFile = \"cases.ndjson\"\nCONSTANT MaxSteps = %d\nCONSTANT Dev = %s\n"
           "INVARIANTS %s\n%sCHECK_DEADLOCK FALSE\n" % (max_steps, devs, " ".join(invariants),
                                                       "PROPERTY Terminates\n" if liveness else ""))
    out, st = vlib.run_tlc(d, "VM", cfg, workers=workers or vlib.NCPU, timeout=timeout, heap="8g",
                           extra_args=("-coverage", "1") if coverage else ())
    if coverage:
        # per-action counts: an action never taken means the invariants were not exercised on it
        acts = {}
        for mm in re.finditer(r"<(\w+) line \d+, col \d+ to line \d+, col \d+ of module VM>: (\d+):(\d+)", out):
            acts[mm.group(1)] = max(acts.get(mm.group(1), 0), int(mm.group(3)))
        ctx.diagnostics["vm_action_coverage:" + name] = acts
        never = sorted(a for a, n in acts.items() if n == 0)
        if never:
            ctx.diagnostics["vm_actions_never_taken:" + name] = never
    m = re.search(r"Error: Invariant (\w+) is violated", out)
    tp = re.search(r"Error: Temporal properties were violated", out)
    found = m.group(1) if m else ("Terminates" if tp else None)
    if expect is None:
        if st["ok"] and st["distinct"] == 0:
            raise Undecided("VM model checking job %s explored no state (empty case list?)" % name)
        if found or not st["ok"]:
            raise Undecided("model checking of spec/VM.tla failed (%s): the specification family is inconsistent:\n%s"
                            % (found, vlib.tlc_error_excerpt(out, 60)))
        ctx.add_mc("VM:" + name, st, what or "VM(Codegen(p), t) refines Semantics; MatchWF, NoStuck, StepBound in every state")
    else:
        ok = found == expect
        ctx.sensitivity.append({"switch": list(dev), "expected_violation": expect, "tlc_reported": found, "ok": ok,
                                "distinct_states": st["distinct"]})
        if not ok:
            raise Undecided("sensitivity run %s: TLC did not report %s with switches %s (reported %s)" % (name, expect, dev, found))
    return st


def expand_texts(cases, limit_per_case=40, seed=1):
    """explicit texts for cases given as (sigma, lo, hi); a deterministic
    sample when there are more than limit_per_case"""
    import random
    rnd = random.Random(seed)
    out = []
    for c in cases:
        c = dict(c)
        if "texts" not in c:
            sig = c.pop("sigma")
            lo, hi = c.pop("lo"), c.pop("hi")
            texts = [list(t) for k in range(lo, hi + 1) for t in itertools.product(sig, repeat=k)]
            if len(texts) > limit_per_case:
                texts = rnd.sample(texts, limit_per_case)
            c["texts"] = texts
        out.append(c)
    return out


def validate_vm_traces(ctx, name, cases, timeout=900, max_events=300000):
    """Record engine steps (hook H1) on the real code for the cases and let
    TLC check that every recorded run is a behaviour of spec/VM.tla executed
    on the implementation's own bytecode."""
    d = ctx.scratch.sub("vt_" + name)
    inp = os.path.join(d, "in.ndjson")
    with open(inp, "w") as f:
        for c in cases:
            f.write(json.dumps(c, separators=(",", ":")) + "\n")
    try:
        p = subprocess.run([ctx.get_harness(), "trace", "-cases", inp, "-out", os.path.join(d, "T"),
                            "-max-events", str(max_events)], capture_output=True, text=True, timeout=600)
    except subprocess.TimeoutExpired:
        raise Undecided("recording engine step traces did not finish in 600 s")
    if p.returncode != 0:
        raise Undecided("trace recording failed: " + p.stderr[-1000:])
    info = json.loads(p.stdout.strip().splitlines()[-1])
    if info["cases"] == 0:
        raise Undecided("no trace could be recorded")
    cfg = ("SPECIFICATION TraceSpec\nCONSTANT CaseFile = \"T.cases.ndjson\"\nCONSTANT TraceFile = \"T.trace.ndjson\"\n"
           "CONSTANT MaxSteps = 1000000\nCONSTANT Dev = {}\nCONSTRAINT HighWater\nINVARIANTS MatchWF NoStuck LineColOK\n"
           "POSTCONDITION TraceAccepted\nCHECK_DEADLOCK FALSE\n")
    out, st = vlib.run_tlc(d, "VMTrace", cfg, workers=1, timeout=timeout, heap="8g")
    rejected = "TRACE-REJECTED" in out
    inv = re.search(r"Error: Invariant (\w+) is violated", out)
    # which VM actions the validated traces exercised (one recorded engine step = one action)
    ops = {}
    with open(os.path.join(d, "T.trace.ndjson")) as f:
        for ln in f:
            if '"ev":"step"' in ln:
                o = json.loads(ln)["op"]
                ops[o] = ops.get(o, 0) + 1
    res = {"traces": info["cases"], "events": info["events"], "skipped": info["skipped"], "over_budget": info.get("over_budget", 0),
           "steps_per_vm_action": ops,
           "accepted": not rejected and st["ok"] and not inv, "distinct_states": st["distinct"]}
    if inv:
        res["invariant_violated"] = inv.group(1)
    if rejected:
        m = re.search(r'"TRACE-REJECTED at line",\s*(\d+)', out)
        line_no = int(m.group(1)) if m else -1
        res["rejected_at_line"] = line_no
        # find the case the rejected line belongs to
        case_id = None
        with open(os.path.join(d, "T.trace.ndjson")) as f:
            for k, ln in enumerate(f, 1):
                e = json.loads(ln)
                if e.get("ev") == "reset":
                    case_id = e["c"]
                if k >= line_no:
                    res["rejected_event"] = e
                    break
        if case_id is not None:
            with open(os.path.join(d, "T.cases.ndjson")) as f:
                for ln in f:
                    cc = json.loads(ln)
                    if cc["id"] == case_id:
                        res["rejected_case"] = {"src": cc["src"], "text": cc["texts"][0]}
                        break
    elif not st["ok"] and not inv:
        raise Undecided("TLC failed on spec/VMTrace.tla:\n" + vlib.tlc_error_excerpt(out, 50))
    ctx.states += st["distinct"]
    ctx.transitions += st["states"]
    ctx.diagnostics.setdefault("vm_trace_validation", []).append({"name": name, **res})
    return res


FIELDS["C05"] = ["spans", "vars", "num", "loc", "val", "repl", "panic"]
RULES["C05"] = ("replace commands: 4 bodies with captures whose values differ between matches x every with-list of "
                "1..2 items (plus longer ones) over {literal, capture, unbound name, undefined name, 7 built-ins, 6 "
                "transforms} x all strings over {a,b,newline} up to the tier's length; non-trivial = at least one match")


@check("C05")
def c05(ctx):
    ctx.technique = "Replacement(m) of spec/Replace.tla + Eval/Exec of spec/Expr.tla evaluated by TLC, replayed into Compile/Run"
    cases = ctx.gen_cases("C05")
    ctx.replay("C05-with-lists", cases, FIELDS["C05"], eval_timeout=900 if ctx.tier == "quick" else 2400)


def run_sharded_machine(ctx, module, cases, invariants, nshards=None, timeout=900, extra_const=""):
    """Model-check a case-driven state machine spec (one behaviour per case)
    sharded over JVMs; returns the JSON documents its Emit invariant printed."""
    nshards = max(1, min(nshards or vlib.NCPU, len(cases)))
    shards = [[] for _ in range(nshards)]
    for k, c in enumerate(cases):
        shards[k % nshards].append(c)
    from concurrent.futures import ThreadPoolExecutor

    def one(k):
        d = ctx.scratch.sub("%s%d" % (module.lower(), k))
        with open(os.path.join(d, "cases.ndjson"), "w") as f:
            for c in shards[k]:
                f.write(json.dumps(c, separators=(",", ":")) + "\n")
        cfg = "SPECIFICATION Spec\nCONSTANT CaseFile = \"cases.ndjson\"\n%s\nINVARIANTS %s\nCHECK_DEADLOCK FALSE\n" % (extra_const, " ".join(invariants))
        out, st = vlib.run_tlc(d, module, cfg, workers=1, timeout=timeout, heap="2g")
        if not st["ok"]:
            raise Undecided("model checking of spec/%s.tla failed:\n%s" % (module, vlib.tlc_error_excerpt(out, 50)))
        return vlib.tlc_json_lines(out), st

    docs, tot = [], {"states": 0, "distinct": 0, "wall_s": 0}
    with ThreadPoolExecutor(max_workers=nshards) as ex:
        for dd, st in ex.map(one, range(nshards)):
            docs.extend(dd)
            tot["states"] += st["states"]
            tot["distinct"] += st["distinct"]
            tot["wall_s"] = max(tot["wall_s"], st["wall_s"])
    return docs, tot


RULES["C06"] = ("behaviours of the file-system machine spec/FS.tla: command lists (find / replace with empty, shorter, "
                "equal, longer replacements; second command re-reading the file) x file sets (1-2 files, all contents "
                "over {a,b,c} up to the tier's length) x {NOTHING, NEW, OVERWRITE} x {stale .vored present, absent}; each "
                "behaviour replayed through RunFiles in a fresh temp directory and the directory compared byte for byte; "
                "non-trivial = at least one match")


def big_file_cases(base, quick):
    """Files beyond the reader's 4096-byte window and the writer's buffers: unchanged stretches longer than a
    window before, between and after the matches, zero matches, a match across the window boundary.  Plain
    literal bodies: the specification's direct scan (LitScan of spec/FS.tla, equal to the semantics on every
    small case: LitScanAgrees) gives the expected files."""
    A, B, Cc = 97, 98, 99
    z9 = [122, 57]
    contents = [
        [A] * 5000 + z9 + [B] * 4500 + z9 + [Cc] * 300,
        z9 + [A] * 9000,
        [A] * 9000,
        [A] * 4095 + z9 + [B] * 4097 + z9,
        ([A, B, Cc, 10] * 1100) + z9 + ([B, A] * 2500),
    ]
    if not quick:
        contents += [[A] * 4096 + z9 + [B] * 4096, [A] * 12289 + z9 + [B] * 8193 + z9 + [Cc] * 2047, z9 * 120 + [A] * 4100 + z9 * 120,
                     [A] * 2047 + z9 + [B] * 2048 + z9 + [Cc] * 6145 + z9]
    lit_ = lambda b: {"k": "lit", "s": list(b), "ci": False, "neg": False}
    withs = [list(b"A-LONGER-REPLACEMENT-TEXT"), [], [81]]
    cmds = [[{"kind": "replace", "amt": {"k": "all"}, "body": [lit_(z9)], "with": [{"k": "str", "s": w}]}] for w in withs]
    cmds.append([{"kind": "find", "amt": {"k": "all"}, "body": [lit_(z9)]}])
    cmds.append([{"kind": "replace", "amt": {"k": "all"}, "body": [lit_(z9)], "with": [{"k": "str", "s": [81, 81, 81]}]},
                 {"kind": "find", "amt": {"k": "all"}, "body": [lit_([81, 81])]}])
    out = []
    for ct in contents:
        for cl in cmds:
            for mode in ("NEW", "OVERWRITE", "NOTHING"):
                for stale in (False, True):
                    if stale and mode != "NEW":
                        continue
                    files = [{"name": "f.txt", "bytes": ct}]
                    if stale:
                        files.append({"name": "f.txt.vored", "bytes": [122] * (len(ct) + 500)})
                    out.append({"id": base + len(out), "big": True, "defs": [], "trans": [], "cmds": cl, "files": files,
                                "order": ["f.txt"], "mode": mode})
    return out


@check("C06")
def c06(ctx):
    ctx.technique = "file-system state machine spec/FS.tla model-checked (mode invariants, splice lemma); every behaviour replayed through RunFiles"
    cases = ctx.gen_cases("C06")
    cases += big_file_cases(max(c["id"] for c in cases) + 1, ctx.tier == "quick")
    docs, st = run_sharded_machine(ctx, "FS", cases, ["OnlyAllowedFilesChange", "SpliceLemma", "LitScanAgrees", "Emit"],
                                   timeout=900 if ctx.tier == "quick" else 2400)
    if len(docs) != len(cases):
        raise Undecided("FS.tla emitted %d final states for %d cases" % (len(docs), len(cases)))
    ctx.add_mc("FS", st, "OnlyAllowedFilesChange and SpliceLemma in every state of every behaviour of the file-system machine")
    d = ctx.scratch.sub("rp_fs")
    cp, ep, rp = [os.path.join(d, x) for x in ("cases.ndjson", "expect.ndjson", "report.json")]
    with open(cp, "w") as f:
        for c in cases:
            f.write(json.dumps(c, separators=(",", ":")) + "\n")
    with open(ep, "w") as f:
        for e in docs:
            f.write(e + "\n")
    p = subprocess.run([ctx.get_harness(), "replayfs", "-property", "C06", "-cases", cp, "-expect", ep, "-report", rp,
                        "-replaydir", os.path.join(vlib.VERIF, "replays", "C06")], capture_output=True, text=True)
    if p.returncode != 0 or not os.path.exists(rp):
        raise Undecided("replayfs failed: " + p.stderr[-1500:])
    with open(rp) as f:
        rep = json.load(f)
    for k in ("abstained_quirk", "rejected_by_compile", "ast_checked", "ast_mismatch"):
        rep.setdefault(k, 0)
    ctx.absorb("C06-fs-machine", rep)
    names_machine(ctx, "C06")


def run_tlaps(ctx, module, what, timeout=900):
    import shutil
    d = ctx.scratch.sub("tlaps_" + module)
    shutil.copy(os.path.join(vlib.SPEC, module + ".tla"), d)
    try:
        p = subprocess.run(["tlapm", "--threads", "8", module + ".tla"], cwd=d, capture_output=True, text=True, timeout=timeout)
    except subprocess.TimeoutExpired:
        raise Undecided("tlapm timed out on " + module)
    m = re.search(r"All (\d+) obligations proved", p.stdout + p.stderr)
    ctx.mc_jobs.append({"job": "TLAPS:" + module, "ok": bool(m), "obligations_proved": int(m.group(1)) if m else 0, "what": what})
    if not m:
        raise Undecided("tlapm did not prove %s:\n%s" % (module, (p.stdout + p.stderr)[-1500:]))


def names_machine(ctx, prop):
    """RunFiles with processFilenames (spec/NamesFS.tla): model-checked, every behaviour replayed."""
    cases = ctx.gen_cases("C06N")
    docs, st = run_sharded_machine(ctx, "NamesFS", cases, ["NeverCrashes", "ArgsExist", "ContentsOnlyMove", "Emit"],
                                   extra_const="CONSTANT Dev = {}")
    if len(docs) != len(cases):
        raise Undecided("NamesFS.tla emitted %d final states for %d cases" % (len(docs), len(cases)))
    ctx.add_mc("NamesFS", st, "NeverCrashes, ArgsExist and ContentsOnlyMove in every state of every -filenames behaviour")
    # sensitivity: arguments that keep their old name after a rename make a later command stat a missing file
    d = ctx.scratch.sub("names_sens")
    two = [c for c in cases if len(c["cmds"]) > 1][:400]
    with open(os.path.join(d, "cases.ndjson"), "w") as f:
        for c in two:
            f.write(json.dumps(c, separators=(",", ":")) + "\n")
    out, st2 = vlib.run_tlc(d, "NamesFS", 'SPECIFICATION Spec\nCONSTANT CaseFile = "cases.ndjson"\nCONSTANT Dev = {"StaleArgs"}\n'
                            'INVARIANT NeverCrashes\nCHECK_DEADLOCK FALSE\n', workers=1, timeout=600, heap="2g")
    if "Invariant NeverCrashes is violated" not in out:
        raise Undecided("sensitivity run of NamesFS.tla with StaleArgs did not violate NeverCrashes:\n" + vlib.tlc_error_excerpt(out, 20))
    ctx.sensitivity.append({"switch": ["StaleArgs"], "expected_violation": "NeverCrashes", "tlc_reported": "NeverCrashes", "ok": True,
                            "module": "NamesFS"})
    if ctx.tier != "quick":
        # the same design for every tree, argument list and rename sequence, by proof
        run_tlaps(ctx, "NamesProof", "Spec => [](every argument that is not a directory names an existing file), for every tree and every sequence of renames")
    d = ctx.scratch.sub("rp_names")
    cp, ep, rp = [os.path.join(d, x) for x in ("cases.ndjson", "expect.ndjson", "report.json")]
    with open(cp, "w") as f:
        for c in cases:
            f.write(json.dumps(c, separators=(",", ":")) + "\n")
    with open(ep, "w") as f:
        for e in docs:
            f.write(e + "\n")
    p = subprocess.run([ctx.get_harness(), "replayfs", "-names", "-property", prop, "-cases", cp, "-expect", ep, "-report", rp,
                        "-replaydir", os.path.join(vlib.VERIF, "replays", prop)], capture_output=True, text=True)
    if p.returncode != 0 or not os.path.exists(rp):
        raise Undecided("replayfs -names failed: " + p.stderr[-1500:])
    with open(rp) as f:
        rep = json.load(f)
    for k in ("abstained_quirk", "rejected_by_compile", "ast_checked", "ast_mismatch"):
        rep.setdefault(k, 0)
    ctx.absorb(prop + "-names-machine", rep)


FIELDS["C11"] = ["spans", "repl", "panic"]
RULES["C11"] = ("expressions: every operator x operand pair over the boundary values {0,1,2,7,-1,matchLength,'','0','7','10',"
                "'abc','a',match,undefined variable,true,false} accepted by the specification's checker and with a defined "
                "value; every pair of operators in both tree shapes over 6 operand triples; unary/binary mixes; depth-3 "
                "trees over 6 operators -- each rendered by the specification with minimal and with full parentheses "
                "(tokens from spec/Expr.tla RenderMin/RenderFull) and observed through a transform (and, for booleans, a "
                "predicate); non-trivial = every case (each has an expected value); distinct by source")


@check("C11")
def c11(ctx):
    ctx.technique = ("operator/coercion tables and precedence as TLA+ definitions (spec/Expr.tla); TLC checks "
                     "ParseExpr(Render(e)) = e and evaluates Eval; values replayed through transforms and predicates")
    d = ctx.scratch.sub("mc_expr")
    out, st = vlib.run_tlc(d, "MC_Expr", "SPECIFICATION Spec\nINVARIANTS RoundTripOK TypeSound\nCONSTANT Dev = {}\nCHECK_DEADLOCK FALSE\n",
                           workers=8, timeout=600, heap="4g")
    if not st["ok"]:
        raise Undecided("MC_Expr failed:\n" + vlib.tlc_error_excerpt(out))
    ctx.add_mc("MC_Expr", st, "documented precedence levels: minimal and full parenthesisation parse back to the tree; typing agrees with evaluation")
    cases = ctx.gen_cases("C11")
    ctx.replay("C11-expressions", cases, FIELDS["C11"])


FIELDS["C12"] = ["accept", "panic", "cpanic", "repl", "spans"]
RULES["C12"] = ("statement lists of 1..3 statements over {set, if/else, loop (nested), break, continue, return, debug} with "
                "well- and ill-typed expressions, each list in transform and in predicate context, every variable "
                "single-typed; expected accept/reject = Check of spec/Expr.tla; accepted terminating code is also run; "
                "non-trivial = the specification rejects the list (plus every run with a match)")


@check("C12")
def c12(ctx):
    ctx.technique = "static checker as TLA+ definition (spec/Expr.tla Check); accept/reject and run-time behaviour replayed into Compile/Run"
    cases = ctx.gen_cases("C12")
    ctx.replay("C12-typing", cases, FIELDS["C12"])


FIELDS["C13"] = ["spans", "vars", "num", "loc", "val", "panic", "reject", "spelling"]
RULES["C13"] = ("12 capture-free bodies x 12 use contexts (1..3 references: alone, prefix, suffix, in loops, in "
                "alternations) x 3 spellings (written out, inline subroutine + calls, `set .. to pattern` + references), "
                "as single commands and as 3-command programs sharing the definitions; all strings over the alphabet up "
                "to the tier's length; the three spellings of a group must give the specification's single result; "
                "non-trivial = at least one expected match")


def check_spellings(ctx, cases, exps):
    """Transparent on the specification: the three spellings of one
    (body, use) group have equal expectations."""
    by_id = {c["id"]: c for c in cases}
    groups = {}
    for e in exps:
        doc = json.loads(e) if isinstance(e, str) else e
        c = by_id[doc["id"]]
        key = c.get("grp")
        sig = json.dumps([[r["t"], [(m["s"], m["e"], m["n"]) for m in r["ms"]]] for r in doc["r"]], sort_keys=True)
        groups.setdefault(key, set()).add(sig)
    bad = [k for k, v in groups.items() if len(v) != 1]
    if bad:
        raise Undecided("specification inconsistency: spellings of groups %s differ in spec/Semantics.tla" % bad[:5])
    return len(groups)


def name_scope_cases():
    L = lambda b: {"k": "lit", "s": list(b), "ci": False, "neg": False}
    anyc = {"k": "cls", "c": "any", "neg": False}
    cap = lambda name, body: {"k": "cap", "name": name, "body": body}
    loop = lambda mn, mx, body: {"k": "loop", "min": mn, "max": mx, "few": False, "name": "", "body": body}
    ref = lambda name: {"k": "ref", "name": name}
    sub = lambda name, es: {"k": "sub", "name": name, "es": es}
    find = lambda body: {"kind": "find", "amt": {"k": "all"}, "body": body}
    repl = lambda body, w: {"kind": "replace", "amt": {"k": "all"}, "body": body, "with": w}
    N = lambda n: {"k": "name", "name": n}
    S = lambda b: {"k": "str", "s": list(b)}
    defs = [{"name": "p", "es": [L(b"a"), loop(0, 1, L(b"b"))], "pred": []}]
    cmds = [
        find([cap("x", L(b"a"))]), repl([cap("x", L(b"b"))], [N("x"), N("x")]), repl([cap("x", anyc), ref("x")], [S(b"<"), N("x")]),
        find([sub("s", [L(b"a")]), loop(0, 1, ref("s"))]), repl([sub("s", [L(b"b")]), ref("s")], [S(b"S")]),
        find([ref("p")]), repl([ref("p")], [S(b"P")]), repl([L(b"b"), ref("p")], [N("value"), S(b"!")]), find([loop(1, -1, ref("p"))]),
        repl([cap("y", L(b"a"))], [N("x"), S(b"-"), N("y")]),          # x was never bound in THIS command
    ]
    cases = []
    for i, a in enumerate(cmds):
        for j, b in enumerate(cmds):
            cases.append({"id": len(cases) + 1, "defs": defs, "cmds": [a, b], "sigma": [97, 98], "lo": 1, "hi": 3})
    # a command's own capture or subroutine named like a global: inside that command the name means the command's own
    defs2 = defs + [{"name": "s", "es": [L(b"a"), L(b"a")], "pred": []}, {"name": "x", "es": [L(b"b"), L(b"b")], "pred": []}]
    own = [find([cap("x", L(b"a")), ref("x")]), find([sub("s", [L(b"b")]), ref("s")]), repl([cap("s", anyc), ref("s")], [N("s")]),
           find([ref("s")]), find([ref("x"), ref("s")]), find([sub("x", [L(b"a")]), loop(1, -1, ref("x")), ref("s")])]
    for a in own:
        for b in own:
            cases.append({"id": len(cases) + 1, "defs": defs2, "cmds": [a, b], "sigma": [97, 98], "lo": 1, "hi": 4})
    for (i, j, k) in ((0, 1, 5), (5, 6, 8), (3, 4, 3), (1, 9, 0), (6, 5, 6), (2, 0, 1)):
        cases.append({"id": len(cases) + 1, "defs": defs, "cmds": [cmds[i], cmds[j], cmds[k]], "sigma": [97, 98], "lo": 1, "hi": 3})
    return cases


def redefinition_cases():
    L = lambda b: {"k": "lit", "s": list(b), "ci": False, "neg": False}
    loop = lambda mn, mx, body: {"k": "loop", "min": mn, "max": mx, "few": False, "name": "", "body": body}
    ref = lambda name: {"k": "ref", "name": name}
    find = lambda body, **kw: dict({"kind": "find", "amt": {"k": "all"}, "body": body}, **kw)
    D = lambda name, es, pred=(): {"name": name, "es": es, "pred": list(pred)}
    bodies = [[L(b"a")], [L(b"b")], [L(b"a"), loop(0, 1, L(b"b"))], [{"k": "or", "l": L(b"a"), "r": L(b"b")}], [loop(1, -1, L(b"b"))]]
    uses = [[ref("s")], [ref("s"), ref("s")], [loop(1, -1, ref("s"))], [L(b"b"), ref("s")]]
    cases = []
    for i, b1 in enumerate(bodies):
        for j, b2 in enumerate(bodies):
            if i == j:
                continue
            for u in uses:
                # set s = b1; use; set s = b2; use; use again
                cases.append({"id": len(cases) + 1, "defs": [D("s", b1)],
                              "cmds": [find(u), find(u, defs_before=[D("s", b2)]), find([ref("s")])],
                              "sigma": [97, 98], "lo": 1, "hi": 4})
            # an unrelated definition in between, and a third definition
            cases.append({"id": len(cases) + 1, "defs": [D("s", b1)],
                          "cmds": [find([ref("s")]), find([ref("t"), ref("s")], defs_before=[D("t", b2)]),
                                   find([ref("s"), ref("t")], defs_before=[D("s", b2), D("t", b1)])],
                          "sigma": [97, 98], "lo": 1, "hi": 4})
    return cases


def setmatches_cases():
    L = lambda b: {"k": "lit", "s": list(b), "ci": False, "neg": False}
    anyc = {"k": "cls", "c": "any", "neg": False}
    cap = lambda name, body: {"k": "cap", "name": name, "body": body}
    loop = lambda mn, mx, body: {"k": "loop", "min": mn, "max": mx, "few": False, "name": "", "body": body}
    ref = lambda name: {"k": "ref", "name": name}
    find = lambda body, amt=None: {"kind": "find", "amt": amt or {"k": "all"}, "body": body}
    repl = lambda body, w: {"kind": "replace", "amt": {"k": "all"}, "body": body, "with": w}
    inner = [find([cap("v", L(b"a"))]), repl([L(b"b")], [{"k": "str", "s": [120]}]), find([ref("s")]),
             find([loop(1, -1, {"k": "or", "l": L(b"a"), "r": L(b"b")})], {"k": "skip", "s": 1}),
             find([cap("v", anyc), ref("v")]), repl([cap("w", L(b"a"))], [{"k": "name", "name": "w"}, {"k": "name", "name": "w"}])]
    outer = [(find([cap("v", L(b"a")), L(b"b")]), find([ref("s"), anyc])),
             (repl([L(b"a")], [{"k": "str", "s": [121]}]), find([loop(1, -1, L(b"b"))])),
             (find([ref("s")]), find([cap("w", anyc), ref("w")]))]
    defs = [{"name": "s", "es": [L(b"a"), loop(0, 1, L(b"b"))], "pred": []}]
    cases = []
    for i, inn in enumerate(inner):
        for j, (x, y) in enumerate(outer):
            for pos in range(3):
                cmds = [x, y]
                cmds.insert(pos, {"kind": "setmatches", "name": "m%d" % pos, "cmd": inn})
                cases.append({"id": len(cases) + 1, "defs": defs, "cmds": cmds, "sigma": [97, 98], "lo": 1, "hi": 4})
    return cases


@check("C13")
def c13(ctx):
    ctx.technique = ("Transparent: inline / subroutine / global spellings evaluated by TLC to one result and replayed; "
                     "VM.tla o Codegen.tla (relocation Adjust) model-checked; repeated Compile/Run histories replayed")
    cases = ctx.gen_cases("C13")
    quick = ctx.tier == "quick"
    exps, st = vlib.eval_cases(ctx.scratch, cases)
    ctx.states += st["distinct"]
    ctx.transitions += st["states"]
    n = check_spellings(ctx, cases, exps)
    ctx.diagnostics["spelling_groups_equal_on_spec"] = n
    ctx.replay("C13-spellings", cases, FIELDS["C13"], reject_violation=True, exps=exps)
    # global patterns that contain calls, predicates and other globals, referenced 1-2 times
    gl = [c for c in ctx.gen_cases("C01") if c.get("defs")]
    ctx.replay("C13-globals", gl if not quick else [c for c in gl if c["id"] % 2 == 0], FIELDS["C13"], reject_violation=True)
    # `set x to matches <command>` between commands: compiled, inert, and without effect on its neighbours
    sm = setmatches_cases()
    ctx.replay("C13-set-matches", sm, FIELDS["C13"], reject_violation=True)
    # names are per command: a capture, a subroutine or a reference to a global used by one command means nothing
    # to the next one, whether that is a find or a replace
    ctx.replay("C13-name-scopes", name_scope_cases(), FIELDS["C13"] + ["repl"], reject_violation=True)
    # definitions between the commands: a name redefined after a use (each command sees the definition before it)
    ctx.replay("C13-redefinition", redefinition_cases(), FIELDS["C13"], reject_violation=True)
    # the relocation of stored global code, on the specification: every command of every program
    vmcases = []
    for c in cases:
        if c["spelling"] == 0 or (quick and c["id"] % 3 != 0):
            continue
        for k in range(1, len(c["cmds"]) + 1):
            cc = dict(c)
            cc["cmdk"] = k
            cc["id"] = len(vmcases) + 1
            vmcases.append(cc)
    mc_vm(ctx, "transparent", cap_texts(vmcases, hi_cap=3 if quick else 4, first_cmd_only=False),
          what="VM(Codegen(spelling)) refines Semantics for subroutine and global spellings (relocation by Adjust), every command of multi-command programs")
    session_histories(ctx)
    if not quick:
        # sensitivity: a global pattern with an inner subroutine, relocated, with the historical Adjust
        g1 = [c for c in ctx.gen_cases("C01") if c.get("defs") and '"k": "sub"' in json.dumps(c["defs"])]
        mc_vm(ctx, "sens-AdjustKeepsSubId", cap_texts(g1, hi_cap=3), dev=["AdjustKeepsSubId"], expect="RefinesSemantics")


def vm_oracle(ctx, name, cases, max_steps=20000, workers=None, timeout=900,
              invariants=("MatchWF", "LineColOK", "NoStuck", "StepBound", "TypeOK", "RefinesSemantics"), drop_expensive=False):
    """Run spec/VM.tla on the cases and use the machine as oracle: returns the
    expectation documents (matches and instruction counts per text).  With
    drop_expensive (seeded random programs only) a case whose search needs more
    than max_steps instructions is dropped from the family and the job re-run."""
    cases = list(cases)
    for attempt in range(8):
        d = ctx.scratch.sub("vmo_%s_%d" % (name, attempt))
        with open(os.path.join(d, "cases.ndjson"), "w") as f:
            for c in cases:
                f.write(json.dumps(c, separators=(",", ":")) + "\n")
        cfg = ("SPECIFICATION Spec\nCONSTANT CaseFile = \"cases.ndjson\"\nCONSTANT MaxSteps = %d\nCONSTANT Dev = {}\n"
               "INVARIANTS %s EmitDone\nCHECK_DEADLOCK FALSE\n" % (max_steps, " ".join(invariants)))
        out, st = vlib.run_tlc(d, "VM", cfg, workers=workers or vlib.NCPU, timeout=timeout, heap="8g")
        if st["ok"]:
            break
        m = re.search(r"Error: Invariant (\w+) is violated", out)
        mc = re.findall(r"/\\ ci = (\d+)", out)
        if drop_expensive and m and m.group(1) == "StepBound" and mc:
            idx = int(mc[-1])
            dropped = cases.pop(idx - 1)
            ctx.diagnostics.setdefault("random_cases_dropped_as_too_expensive", []).append(dropped.get("id"))
            continue
        raise Undecided("model checking of spec/VM.tla failed:\n" + vlib.tlc_error_excerpt(out, 60))
    else:
        raise Undecided("too many expensive random cases")
    by_id = {}
    for doc in vlib.tlc_json_lines(out):
        r = json.loads(doc)
        by_id.setdefault(r["id"], []).append({"t": r["t"], "ms": r["ms"], "firm": True, "undef": False,
                                               "noret": False, "steps": r["steps"]})
    exps = [{"id": i, "r": rs} for i, rs in by_id.items()]
    ctx.add_mc("VM:" + name, st, "every behaviour of the engine model over the scope reaches `done` within MaxSteps=%d instructions "
               "(StepBound), never gets stuck (NoStuck), reports well-formed matches (MatchWF)%s" % (
                   max_steps, " equal to the reference semantics" if "RefinesSemantics" in invariants else
                   "; the model (checked to refine the reference semantics on the structured scopes) is the oracle here"))
    return exps, st, cases


FIELDS["C09"] = ["panic", "crash", "hang", "cpanic", "wf", "filediff"]
RULES["C09"] = ("programs: C09_Bodies of spec/Scope.tla (empty bodies and groups, empty literals, nullable captures followed by "
                "back-references, every anchor and class at both ends of the input, whole file/line/word, multi-byte `not in` "
                "items, ranges with unequal ends) x ALL strings over {a,b,space,newline} of length 0..3 (so every truncation "
                "of every matching text), through Run and through RunFiles on a file with the same bytes; plus the C02 "
                "capture scope; plus transforms with `match` in every operand position applied to arbitrary match text; "
                "non-trivial = the specification expects a match or an undefined value")


@check("C09")
def c09(ctx):
    ctx.technique = ("NoStuck invariant of spec/VM.tla model-checked over the crash scope; every case run through Run and "
                     "RunFiles under recover; failures whose signature the specification computes matched against known findings")
    quick = ctx.tier == "quick"
    cases = ctx.gen_cases("C09")
    # the design: the engine model cannot get stuck on any generated program
    runnable = [c for c in cases if "whole" not in json.dumps(c)]
    mc_vm(ctx, "nostuck", cap_texts(runnable, hi_cap=3), invariants=("MatchWF", "LineColOK", "NoStuck", "StepBound", "TypeOK", "RefinesSemantics"),
          what="NoStuck/StepBound/MatchWF in every state of the engine model over the crash scope (incl. the empty text)")
    ctx.replay("C09-core", cases, FIELDS["C09"], mode="both")
    c2 = ctx.gen_cases("C02")
    ctx.replay("C09-captures-files", c2, FIELDS["C09"], mode="both")
    pc = ctx.gen_cases("C09P")
    ctx.replay("C09-process", pc, FIELDS["C09"])
    # amount clauses with more and with fewer matches than they ask for (also none), find and replace, text and file
    am = ctx.gen_cases("C04")
    ctx.replay("C09-amounts", [c for c in am if c["id"] >= 300000 or c["id"] % (5 if quick else 2) == 0], FIELDS["C09"], mode="both")
    # inputs beyond the reader's and the memory writer's buffer sizes: returns normally, file = string
    pat = [ord(ch) for ch in "ab c\nxy  z9\n"]
    big = lambda n: [pat[i % len(pat)] for i in range(n)]
    anyc = {"k": "cls", "c": "any", "neg": False}
    find = lambda body: {"kind": "find", "amt": {"k": "all"}, "body": body}
    repl = lambda body, w: {"kind": "replace", "amt": {"k": "all"}, "body": body, "with": [{"k": "str", "s": list(w)}]}
    progs = [[repl([lit(b"z9")], b"a-longer-replacement")], [repl([lit(b"q")], b"x")], [repl([lit(b"ab c")], b"")],
             [repl([lit(b"xy")], b"r" * 5000)], [find([lit(b"z9"), {"k": "anc", "c": "lineend", "neg": False}])],
             [repl([{"k": "anc", "c": "filestart", "neg": False}, lit(b"ab")], b"Z"), find([lit(b"9\n"), {"k": "anc", "c": "fileend", "neg": False}])]]
    sizes = [4095, 4096, 4097, 8193, 9000] if quick else [2048, 4095, 4096, 4097, 6145, 8192, 8193, 9000, 12289, 20000]
    bcases = [{"id": i + 1, "cmds": p, "texts": [big(n) for n in sizes]} for i, p in enumerate(progs)]
    bexps = [{"id": c["id"], "r": [{"t": t, "ms": [], "firm": False, "undef": False, "noret": False} for t in c["texts"]]} for c in bcases]
    ctx.replay("C09-big-inputs", bcases, FIELDS["C09"], mode="both", exps=bexps, want_ast=False)
    # accepted programs outside the modelled subsets (regex \\w \\W \\b, classes with a trailing dash, odd counts): run, no oracle
    extras = ["find all @/\\w+\\b/", "find all @/\\W/", "find all @/a\\b/", "find all @/[a-]+/", "find all @/[]-a]/", "find all @/a{2,1}/",
              "find all between 2 and 1 'a'", "find all at most 0 'a'", "find all exactly 0 'a' 'b'", "find all @/(a|)+b/", "find all @/\\bab\\b/",
              "find all caseless @/ab/", "find all not @/a/", "find all @/a/ = x x", "find all maybe @/(a)/ _1",
              # the name of a loop used where a text is expected (it holds a map)
              "find all at least 1 'a' named lp lp", "replace all at least 1 ('a' = c) named lp with lp '-' c",
              "set t to transform return lp + match end replace all at least 1 'a' named lp with t",
              "find all at least 1 (at least 1 'a' named inner 'b') named outer inner",
              # amounts far beyond any number of matches (and beyond what fits the model's integers): nothing is allocated up front
              "find take 1000000000000000 'a'", "find top 4000000000 'a'", "find skip 1 take 9000000000000000000 'a'", "find last 3000000000 'a'",
              "replace skip 2000000000 'a' with 'x'"]
    etexts = [[], [97], [97, 98], [98, 97, 32, 97, 98], [97, 45, 93, 97], [32, 97, 97, 98, 10, 97], [95, 49, 97, 32]]
    ecases = [{"id": i + 1, "src": sct, "texts": etexts} for i, sct in enumerate(extras)]
    eexps = [{"id": c["id"], "r": [{"t": t, "ms": [], "firm": False, "undef": False, "noret": False} for t in c["texts"]]} for c in ecases]
    ctx.replay("C09-unmodelled-accepted", ecases, FIELDS["C09"], mode="both", exps=eexps, want_ast=False)
    # RunFiles on file NAMES (renames between commands): returns normally
    names_machine(ctx, "C09")


FIELDS["C10"] = ["budget", "hang", "crash", "panic", "spans"]
RULES["C10"] = ("programs: C10_Bodies of spec/Scope.tla: loops {maybe, at least 0/1/2, at most 2} greedy and fewest nested to "
                "depth 3 over nullable bodies (all anchors and negations, (), maybe 'a', 'a' or (), nullable captures, calls "
                "of nullable subroutines, not in, lazy any*) x all strings over {a,space,newline} up to the tier's length; "
                "the real engine runs under an instruction budget of 20 x the model's step count + 10^4 (the engine and the model agree on the exact step count of every run); non-trivial = "
                "the model needs more than 20 instructions")


def process_loop_cases():
    N = lambda v: {"k": "num", "v": v}
    V = lambda x: {"k": "var", "name": x}
    S = lambda b: {"k": "str", "v": list(b)}
    B = lambda op, l, r: {"k": "bin", "op": op, "l": l, "r": r}
    Set = lambda x, e: {"k": "set", "name": x, "e": e}
    Ret = lambda e: {"k": "ret", "e": e}
    If = lambda c, th, el=(): {"k": "if", "c": c, "th": list(th), "el": list(el)}
    Loop = lambda *b: {"k": "loop", "body": list(b)}
    Brk, Cont = {"k": "brk"}, {"k": "cont"}
    inc = Set("i", B("+", V("i"), N(1)))
    bodies = [
        [Set("i", N(0)), Loop(inc, If(B(">", V("i"), N(3)), [Brk]), Cont), Ret(V("i"))],
        [Set("i", N(0)), Set("s", S(b"")), Loop(inc, If(B(">", V("i"), N(4)), [Brk]), If(B("==", B("%", V("i"), N(2)), N(0)), [Cont]),
                                                Set("s", B("+", V("s"), V("i")))), Ret(V("s"))],
        [Set("i", N(0)), Loop(If(B("<", V("i"), V("matchLength")), [inc, Cont]), Brk), Ret(V("i"))],
        [Set("i", N(0)), Set("j", N(0)), Loop(inc, If(B(">", V("i"), N(2)), [Brk]),
                                               Loop(Set("j", B("+", V("j"), N(1))), If(B("<", V("j"), B("*", V("i"), N(2))), [Cont]), Brk), Cont),
         Ret(B("+", B("*", V("i"), N(10)), V("j")))],
        [Set("i", N(0)), Loop(inc, If(B("==", V("i"), N(1)), [Cont], [If(B("==", V("i"), N(2)), [Cont], [Brk])])), Ret(V("i"))],
        [Set("t", V("match")), Set("n", N(0)), Loop(If(B("==", V("t"), S(b"")), [Brk]), Set("t", {"k": "un", "op": "tail", "e": V("t")}),
                                                   Set("n", B("+", V("n"), N(1))), Cont), Ret(V("n"))],
    ]
    anyc = {"k": "cls", "c": "any", "neg": False}
    lp = {"k": "loop", "min": 1, "max": -1, "few": False, "name": "", "body": {"k": "lit", "s": [97], "ci": False, "neg": False}}
    cases = []
    for b in bodies:
        cases.append({"id": len(cases) + 1, "defs": [], "trans": [{"name": "f", "stmts": b}], "ctx": "trans",
                      "cmds": [{"kind": "replace", "amt": {"k": "all"}, "body": [lp], "with": [{"k": "name", "name": "f"}]}],
                      "texts": [[97], [97, 97, 98, 97], [98], [97, 97, 97, 97, 97]]})
    # the same loops deciding a predicate
    for b in bodies[:3]:
        pb = b[:-1] + [Ret(B(">", b[-1]["e"], N(1)) if b is not bodies[1] else B("==", b[-1]["e"], S(b"13")))]
        cases.append({"id": len(cases) + 1, "defs": [{"name": "p", "es": [lp], "pred": pb}], "ctx": "pred",
                      "cmds": [{"kind": "find", "amt": {"k": "all"}, "body": [{"k": "ref", "name": "p"}]}],
                      "texts": [[97], [97, 97, 98, 97], [98, 97, 97, 97]]})
    return cases


@check("C10")
def c10(ctx):
    ctx.technique = ("termination of spec/VM.tla model-checked (StepBound safety form; liveness <>done under weak fairness in "
                     "the thorough tier; NoZeroWidthGuard switch must give a counterexample); the real engine replayed under an "
                     "instruction budget derived from the model's step counts (hook H1)")
    quick = ctx.tier == "quick"
    cases = ctx.gen_cases("C10")
    exps, st, _ = vm_oracle(ctx, "terminate", cap_texts(cases), max_steps=20000)
    nontriv = sum(1 for e in exps for r in e["r"] if r["steps"] > 20)
    rep = ctx.replay("C10-budget", cases, FIELDS["C10"], exps=exps, extra=["-budget-mul", "20"], timeout=20)
    ctx.nontrivial = nontriv
    ctx.diagnostics["max_model_steps"] = max(r["steps"] for e in exps for r in e["r"])
    # process code with bounded loops (break, continue, nested, inside if): terminates with the specification's value
    ctx.replay("C10-process-loops", process_loop_cases(), ["hang", "crash", "panic", "spans", "repl", "budget"], timeout=20)
    # sensitivity: without the zero-width guard the model spins
    sens = [c for c in cases if c["id"] % 60 == 0]
    mc_vm(ctx, "sens-NoZeroWidthGuard", cap_texts(sens, hi_cap=2), dev=["NoZeroWidthGuard"], expect="StepBound", max_steps=500,
          invariants=("StepBound",))
    if not quick:
        live = [c for c in cases if c["id"] % 4 == 0]
        mc_vm(ctx, "liveness", cap_texts(live, hi_cap=3), liveness=True, invariants=("StepBound", "NoStuck"),
              what="<>(phase = done) under WF(Next) for every behaviour (no non-progress cycle)")


# ------------------------------------------------------------------- C07
RULES["C07"] = ("(i) all seek/read histories of the window machine spec/Reader.tla for B=4, N in {0,1,3,4,5,7,8,9,12,14}; "
                "(ii) recorded engine histories (hook H2) on generated files of sizes 0,1,2049,4096,4097,8193 (quick; thorough "
                "adds 2047..2048, 4095, 6143..6145, 8191..8192, 12289, 20000) for programs that read forward, step back one "
                "byte for anchors, backtrack far, and splice -- one case per recorded event, non-trivial = the event returns "
                "bytes or moves the window; (iii) the C01 scope run through RunFiles and Run and compared")
PATTERN = [ord(ch) for ch in "ab c\nxy  z9\n"]


def reader_plan(tier):
    sizes = [0, 1, 2049, 4096, 4097, 8193]
    if tier != "quick":
        sizes += [2, 2047, 2048, 4095, 6143, 6144, 6145, 8191, 8192, 12289, 20000]
    runs = [{"size": s, "src": "find all 'q'", "mode": "NOTHING"} for s in sizes]
    for s in ([6145] if tier == "quick" else [4097, 6145, 8193, 12289]):
        runs.append({"size": s, "src": "find all 'c' line end", "mode": "NOTHING"})
        runs.append({"size": s, "src": "find all file start 'ab' between 0 and 2500 any 'QQ'", "mode": "NOTHING"})
        runs.append({"size": s, "src": "find all word start at least 1 letter word end", "mode": "NOTHING"})
    for s in ([9000] if tier == "quick" else [4096, 9000, 12289]):
        runs.append({"size": s, "src": "replace all 'z9' with 'long-replacement'", "mode": "NEW"})
        runs.append({"size": s, "src": "replace all 'ab c' with ''", "mode": "NEW"})
        # unchanged stretches far longer than the window: one read for the whole file / the whole tail
        runs.append({"size": s, "src": "replace all 'q' with 'x'", "mode": "NEW"})
        runs.append({"size": s, "src": "replace all file start 'ab' with 'Z'", "mode": "NEW"})
        runs.append({"size": s, "src": "replace all 'z9' file end with 'THE-END'", "mode": "OVERWRITE"})
        # several commands on one file: every command reads the file as it is then
        runs.append({"size": s, "src": "replace all 'z9' with 'Q' find all 'z9'", "mode": "NOTHING"})
        runs.append({"size": s, "src": "replace all 'z9' with 'Q' find all 'xy' replace all 'c' with ''", "mode": "NEW"})
    for s in ([6145] if tier == "quick" else [4500, 6145, 9000]):
        # alternatives that each read ahead beyond the first window and fail: several far-back seeks to the start in one
        # attempt, the last alternative then has to read the right bytes again
        runs.append({"size": s, "src": "find all (file start 'ab' exactly 4100 any 'QQ') or (file start 'ab c' exactly 4200 any 'QQ') "
                                       "or (file start exactly 4320 any 'ab c')", "mode": "NOTHING"})
        runs.append({"size": s, "src": "find all (file start 'ab c' = tag exactly 4100 any 'QQ' tag) or (file start exactly 4200 any = u 'QQ') "
                                       "or (file start at least 4400 any fewest 'z9')", "mode": "NOTHING"})
    for s in ([4097] if tier == "quick" else [1, 2, 4097, 8193]):
        # reads that ask for more bytes than are left (a negated literal near the end of the file)
        runs.append({"size": s, "src": "find all not 'qqq'", "mode": "NOTHING"})
        runs.append({"size": s, "src": "find all 'z' not in 'qqqq', '9\\nab'", "mode": "NOTHING"})
    return {"pattern": PATTERN, "runs": runs}


def run_reader_trace_tlc(ctx, d, strict):
    cfg = ("SPECIFICATION TraceSpec\nCONSTANT TraceFile = \"T.ndjson\"\nCONSTANT Strict = %s\nCONSTRAINT HighWater\n"
           "INVARIANT WindowOK\nPOSTCONDITION TraceAccepted\nCHECK_DEADLOCK FALSE\n" % ("TRUE" if strict else "FALSE"))
    out, st = vlib.run_tlc(d, "ReaderTrace", cfg, workers=1, timeout=1200, heap="8g")
    rejected = "TRACE-REJECTED" in out or "Invariant WindowOK is violated" in out
    if not rejected and not st["ok"]:
        raise Undecided("TLC failed on spec/ReaderTrace.tla:\n" + vlib.tlc_error_excerpt(out, 40))
    m = re.search(r'"TRACE-REJECTED at line",\s*(\d+)', out)
    return (not rejected), st, (int(m.group(1)) if m else -1)


@check("C07")
def c07(ctx):
    ctx.technique = ("window machine spec/Reader.tla model-checked (B=4, all histories) and its re-centring arithmetic proved "
                     "inductive for B=4096 by Apalache (thorough); engine-issued seek/read histories recorded by hook H2 validated "
                     "against spec/ReaderTrace.tla; file-vs-string replay")
    quick = ctx.tier == "quick"
    # (i) the design, small constants, all histories
    from concurrent.futures import ThreadPoolExecutor

    def mc(n):
        d = ctx.scratch.sub("reader%d" % n)
        cfg = ("SPECIFICATION Spec\nCONSTANTS N = %d\nB = 4\nH = 4\nINVARIANTS WindowOK CursorOK Covers ReadsFile NoSpin\n"
               "CHECK_DEADLOCK FALSE\n" % n)
        out, st = vlib.run_tlc(d, "Reader", cfg, workers=2, timeout=300, heap="1g")
        if not st["ok"]:
            raise Undecided("model checking of spec/Reader.tla failed for N=%d:\n%s" % (n, vlib.tlc_error_excerpt(out)))
        return st
    tot = {"states": 0, "distinct": 0, "wall_s": 0.0}
    with ThreadPoolExecutor(max_workers=8) as ex:
        for st in ex.map(mc, [0, 1, 3, 4, 5, 7, 8, 9, 12, 14]):
            tot["states"] += st["states"]
            tot["distinct"] += st["distinct"]
            tot["wall_s"] = max(tot["wall_s"], st["wall_s"])
    ctx.add_mc("Reader(B=4)", tot, "WindowOK, Covers, ReadsFile, NoSpin for all seek/read histories, N in {0,1,3,4,5,7,8,9,12,14}")
    if not quick:
        d = ctx.scratch.sub("apalache")
        import shutil
        shutil.copy(os.path.join(vlib.SPEC, "ReaderInd.tla"), d)
        for args, name in ((["--init=Init", "--length=0"], "base"), (["--init=IndInit", "--length=1"], "step")):
            try:
                p = subprocess.run(["apalache-mc", "check", "--cinit=ConstInit", "--inv=IndInv"] + args + ["ReaderInd.tla"],
                                   cwd=d, capture_output=True, text=True, timeout=600)
            except subprocess.TimeoutExpired:
                raise Undecided("apalache timed out")
            ok = "EXITCODE: OK" in p.stdout
            ctx.mc_jobs.append({"job": "Apalache:ReaderInd:" + name, "ok": ok,
                                "what": "inductive invariant of the re-centring arithmetic, B=H=4096, N<=100000"})
            if not ok:
                raise Undecided("Apalache did not discharge ReaderInd (%s):\n%s" % (name, p.stdout[-1500:]))
    if not quick:
        # the same invariant for EVERY file size, by proof (TLAPS, SMT back end)
        d = ctx.scratch.sub("tlaps")
        import shutil
        shutil.copy(os.path.join(vlib.SPEC, "ReaderProof.tla"), d)
        try:
            p = subprocess.run(["tlapm", "--threads", "8", "ReaderProof.tla"], cwd=d, capture_output=True, text=True, timeout=900)
        except subprocess.TimeoutExpired:
            raise Undecided("tlapm timed out")
        m = re.search(r"All (\d+) obligations proved", p.stdout + p.stderr)
        ctx.mc_jobs.append({"job": "TLAPS:ReaderProof", "ok": bool(m), "obligations_proved": int(m.group(1)) if m else 0,
                            "what": "Spec => []IndInv and SeekCovers for every file size N (B = H = 4096)"})
        if not m:
            raise Undecided("tlapm did not prove ReaderProof:\n" + (p.stdout + p.stderr)[-1500:])
    # (ii) recorded histories
    d = ctx.scratch.sub("rt")
    with open(os.path.join(d, "plan.json"), "w") as f:
        json.dump(reader_plan(ctx.tier), f)
    try:
        p = subprocess.run([ctx.get_harness(), "readertrace", "-plan", "plan.json", "-out", "T.ndjson", "-report", "rep.json"],
                           cwd=d, capture_output=True, text=True, timeout=400)
    except subprocess.TimeoutExpired:
        # the plan runs in seconds on a conforming tree (in memory and on files); not returning is the violation
        ctx.violations.append({"kind": "hang", "sig": "reader-hang", "family": "C07-reader-traces",
                               "detail": "RunFiles did not return within 400 s on the reader plan (it takes < 10 s on a conforming tree)",
                               "src": "", "text": None, "case": {"plan": reader_plan(ctx.tier)}})
        return
    if p.returncode != 0:
        raise Undecided("reader trace recording failed: " + p.stderr[-1500:])
    with open(os.path.join(d, "rep.json")) as f:
        rrep = json.load(f)
    accepted, st, line_no = run_reader_trace_tlc(ctx, d, True)
    ctx.states += st["distinct"]
    ctx.transitions += st["states"]
    diag = {"events": rrep["events"], "runs": len(rrep["runs"]), "strict_accepted": accepted}
    if not accepted:
        ok2, st2, line2 = run_reader_trace_tlc(ctx, d, False)
        diag["bytes_only_accepted"] = ok2
        diag["rejected_at_line"] = line_no
        if not ok2:
            with open(os.path.join(d, "T.ndjson")) as f:
                lines = f.readlines()
            ev = json.loads(lines[line2 - 1]) if 0 < line2 <= len(lines) else {}
            ctx.violations.append({"kind": "reader-bytes", "sig": "reader-bytes", "family": "C07-reader-traces",
                                   "detail": "the buffered reader returned bytes that are not the file's (trace line %d: %s)" % (line2, ev),
                                   "src": "", "text": None, "case": {"plan": reader_plan(ctx.tier), "event": ev, "line": line2}})
    ctx.diagnostics["reader_trace_validation"] = diag
    ctx.evaluations += rrep["events"]
    ctx.nontrivial += sum(1 for r in rrep["runs"] if r["events"] > 0)
    ctx.families["C07-reader-traces"] = {"events": rrep["events"], "runs": len(rrep["runs"]),
                                         "recentres": sum(r["recentres"] for r in rrep["runs"])}
    for r in rrep["runs"]:
        if r.get("panic") or r.get("diff"):
            ctx.violations.append({"kind": "filediff", "sig": "filediff", "family": "C07-big-files",
                                   "detail": "size %d: %s %s" % (r["size"], r.get("panic", ""), r.get("diff", "")),
                                   "src": r["src"], "text": None, "case": {"size": r["size"], "src": r["src"], "pattern": PATTERN}})
    ctx.samples.append({"family": "C07-reader-traces", "plan_run": rrep["runs"][min(3, len(rrep["runs"]) - 1)]})
    # (iii) file vs string on the core scope
    cases = ctx.gen_cases("C01")
    sel = [c for c in cases if c["id"] % (6 if quick else 2) == 0]
    ctx.replay("C07-file-vs-string", sel, ["filediff", "panic", "spans"], mode="both")
    edge = ctx.gen_cases("C09")
    ctx.replay("C07-file-vs-string-edge", edge, ["filediff", "panic"], mode="both")


# ------------------------------------------------------------------- C08
RULES["C08"] = ("(a) every string of length <= 3 (quick) / 4 (thorough) over one representative per lexer character class "
                "(25 classes incl. NUL), bare and after `find all `; (b) every character prefix and, enumerated by TLC from "
                "spec/Grammar.tla, every token prefix, one-token deletion, duplication and adjacent swap of 15 corpus programs "
                "covering the grammar; (c) every regex body of length <= 3/4 over 25 regex symbols inside @/../; (d) seeded "
                "token soups and random bytes; each source compiled in a worker subprocess under a wall-clock and memory "
                "budget; non-trivial = the source is rejected by Compile")

TOKEN_RE = re.compile(r"""--\([\s\S]*?\)--|--[^\n]*|@/[^/]*/|'(?:\\.|[^'\\])*'|"(?:\\.|[^"\\])*"|[A-Za-z][A-Za-z0-9]*|[0-9]+|<=|>=|==|!=|:=|\S""")


def corpus_programs():
    with open(os.path.join(vlib.VERIF, "corpus", "programs.json")) as f:
        return json.load(f)


def run_lex_mc(ctx, name, repset, maxlen, emit, dev=(), expect=None):
    d = ctx.scratch.sub("lex_" + name)
    devs = "{" + ", ".join('"%s"' % x for x in dev) + "}"
    cfg = ("SPECIFICATION Spec\nCONSTANT MaxLen = %d\nCONSTANT RepSet = \"%s\"\nCONSTANT LexDev = %s\nINVARIANTS LexTotal Progress %s\n"
           "CHECK_DEADLOCK FALSE\n" % (maxlen, repset, devs, emit))
    out, st = vlib.run_tlc(d, "MC_Lex", cfg, workers=vlib.NCPU, timeout=900, heap="8g")
    m = re.search(r"Error: Invariant (\w+) is violated", out)
    if expect is None:
        if m or not st["ok"]:
            raise Undecided("model checking of spec/Lexer.tla failed:\n" + vlib.tlc_error_excerpt(out, 40))
        return vlib.tlc_json_lines(out), st
    ok = bool(m) and m.group(1) == expect
    ctx.sensitivity.append({"switch": list(dev), "expected_violation": expect, "tlc_reported": m.group(1) if m else None, "ok": ok})
    if not ok:
        raise Undecided("sensitivity run %s did not report %s" % (name, expect))
    return [], st


def compile_check(ctx, family, lines, wraps):
    d = ctx.scratch.sub("cc_" + family)
    ip, rp = os.path.join(d, "in.ndjson"), os.path.join(d, "report.json")
    with open(ip, "w") as f:
        for ln in lines:
            f.write(ln if isinstance(ln, str) else json.dumps(ln))
            f.write("\n")
    p = subprocess.run([ctx.get_harness(), "compilecheck", "-in", ip, "-wraps", wraps, "-report", rp, "-family", family,
                        "-replaydir", os.path.join(vlib.VERIF, "replays", "C08")], capture_output=True, text=True)
    if p.returncode != 0 or not os.path.exists(rp):
        raise Undecided("compilecheck failed: " + p.stderr[-1500:])
    with open(rp) as f:
        rep = json.load(f)
    for k in ("abstained_quirk", "ast_checked", "ast_mismatch"):
        rep.setdefault(k, 0)
    ctx.absorb(family, rep, allow_rejects=True)
    return rep


@check("C08")
def c08(ctx):
    ctx.technique = ("lexer automaton spec/Lexer.tla model-checked total (LexTotal, Progress; AsIsFinalSwitch/RegexIgnoresEof "
                     "switches give counterexamples); TLC-enumerated sources, regex bodies and token mutants (spec/Grammar.tla) "
                     "compiled by the real code in budgeted worker subprocesses")
    quick = ctx.tier == "quick"
    n = 3 if quick else 4
    docs, st = run_lex_mc(ctx, "total", "lex", n, "EmitLex")
    ctx.add_mc("MC_Lex", st, "LexTotal and Progress for every string of length <= %d over the 25 class representatives" % n)
    compile_check(ctx, "C08-lexer-strings", docs, "bare,findall")
    docs, st = run_lex_mc(ctx, "regex", "regex", n, "EmitSrc")
    ctx.add_mc("MC_Lex(regex bodies)", st, "enumeration of regex bodies; lexer total on them")
    compile_check(ctx, "C08-regex-bodies", docs, "regex")
    # token mutants from the grammar machine
    progs = corpus_programs()
    d = ctx.scratch.sub("grammar")
    with open(os.path.join(d, "corpus.ndjson"), "w") as f:
        for i, pr in enumerate(progs):
            f.write(json.dumps({"id": i + 1, "toks": TOKEN_RE.findall(pr)}) + "\n")
    out, st = vlib.run_tlc(d, "Grammar", "SPECIFICATION Spec\nCONSTANT CorpusFile = \"corpus.ndjson\"\nINVARIANT Emit\nCHECK_DEADLOCK FALSE\n",
                           workers=4, timeout=600, heap="2g")
    if not st["ok"]:
        raise Undecided("spec/Grammar.tla failed:\n" + vlib.tlc_error_excerpt(out))
    ctx.add_mc("Grammar", st, "token prefixes, deletions, duplications, adjacent swaps of the corpus programs")
    compile_check(ctx, "C08-token-mutants", vlib.tlc_json_lines(out), "bare")
    # character prefixes of the corpus and of valid regex literals
    lines = []
    regexes = ["a(b|c)+[d-f]?\\d{2,3}$", "(?<n>a*)\\k<n>", "(?:ab|c){1,}?\\1", "^[^a-c\\]]+?$", "((a)b)\\2\\1", "\\b\\w+\\B.\\S\\D"]
    for pr in progs + ["find all @/%s/" % r for r in regexes]:
        for k in range(len(pr) + 1):
            lines.append({"text": pr[:k] if k else " "})
    compile_check(ctx, "C08-char-prefixes", lines, "bare")
    # seeded soups
    import random
    rnd = random.Random(ctx.seed)
    vocab = sorted(set(t for pr in progs for t in TOKEN_RE.findall(pr))) + ["(", ")", "{", "}", "=", ",", "begin", "end", "named", "x", "1"]
    soups = []
    for _ in range(3000 if quick else 30000):
        soups.append({"text": " ".join(rnd.choice(vocab) for _ in range(rnd.randint(1, 12)))})
    for _ in range(1500 if quick else 15000):
        soups.append({"src": [rnd.randint(1, 127) for _ in range(rnd.randint(1, 24))]})
    for _ in range(500 if quick else 5000):
        soups.append({"src": [rnd.randint(0, 255) for _ in range(rnd.randint(1, 16))]})
    compile_check(ctx, "C08-seeded-soups", soups, "bare,findall")
    # numbers that do not fit an int in every numeric position, comment and string edges at the end of the source
    big = "99999999999999999999"
    edge = ["find skip %s 'a'", "find skip 1 take %s 'a'", "find take %s 'a'", "find top %s 'a'", "find last %s 'a'", "find all exactly %s 'a'",
            "find all at least %s 'a'", "find all at most %s 'a'", "find all between %s and 2 'a'", "find all between 1 and %s 'a'",
            "set t to transform return %s end replace all 'a' with t", "set p to pattern 'a' begin return matchLength < %s end find all p",
            "find all @/a{%s}/", "find all @/a{1,%s}/", "find all @/a{%s,}/"]
    lines = [{"text": e % big} for e in edge] + [{"text": e % "0"} for e in edge] + [{"text": e % "007"} for e in edge]
    lines += [{"text": t} for t in ["find all @/(?=a)b/", "find all @/a(?!b)/", "find all @/(?<=a)b/", "find all @/(?<!a)b/", "find all @/(?<n/", "find all @/(?<n>a/",
                                    "find all @/\\w+\\b/", "find all @/\\W\\B/", "find all @/[a-/", "find all @/[a-]/", "find all @/[]-a]/", "find all @/a{2,1}/",
                                    "find all @/(?/", "find all @/(?</", "find all @/\\k<n>/", "find all @/\\k<n/", "find all @/\\9/"]]
    lines += [{"text": t} for t in ["set f to transform set a to 1 set b to 'x' loop set t to a set a to b set b to t break end return 'r' end replace all 'a' with f",
                                    "set f to transform set a to 1 loop set a to a + 'x' set a to 2 break end return a end replace all 'a' with f",
                                    "set f to transform set a to true set b to 1 set c to 'x' loop set t to a set a to b set b to c set c to t break end return 'r' end replace all 'a' with f",
                                    "set p to pattern 'a' begin set a to 1 set b to 'x' loop set t to a set a to b set b to t break end return true end find all p",
                                    "set f to transform loop loop set a to 1 set a to 'x' break end set a to true break end return 'r' end replace all 'a' with f"]]
    lines += [{"text": t} for t in ["find all 'a' --", "find all 'a' --(", "find all 'a' --()", "find all 'a' --()-", "find all 'a' --())", "find all 'a' --()-)",
                                    "find all 'a' ---", "--\nfind all 'a'", "--()-)--find all 'a'", "find all 'a' -", "find all '\\", "find all \"\\",
                                    "find all 'a' = ", "find all 'a' = x =", "find all 'a' = x 'b' = x", "find all {'a'} = s {'b'} = s", "find all at least 1 'a' named x 'b' = x", "find all between 2 and 1 'a'", "find all at most 0 'a'", "find all exactly 0 'a' 'b'"]]
    # every \\xHH above 0x7f in both quote styles, and incomplete hex escapes followed by other characters
    for q in ("'", '"'):
        for b in range(0x80, 0x100):
            lines.append({"text": "find all %s\\x%02x%s" % (q, b, q)})
            if b % 16 == 0:
                lines.append({"text": "find all %s\\x%02X%s" % (q, b + 15, q)})
        for tail in ("4g", "g4", "1 ", "1", "", "f", "ff", "0", "00", "x41", "\\\\", "4\\\\"):
            lines.append({"text": "find all %sa\\x%s%s" % (q, tail, q)})
            lines.append({"text": "find all %s\\x%sb%s 'c'" % (q, tail, q)})
    compile_check(ctx, "C08-edge-sources", lines, "bare")
    ctx.exhaustive = False
    # sensitivity of the lexer model
    run_lex_mc(ctx, "sens-final", "lex", 2, "", dev=["AsIsFinalSwitch"], expect="LexTotal")
    run_lex_mc(ctx, "sens-regexeof", "lex", 3, "", dev=["RegexIgnoresEof"], expect="LexTotal")


# ------------------------------------------------------------- C15, C16
RULES["C15"] = ("corpus (17 programs covering every grammar production, docs/examples/*.vore, 30 generated scope programs) x "
                "every gap between significant tokens x 6 fillers {space, newline, tab run, line comment, block comment, block "
                "comment with blanks and a newline inside}, every closable gap (no separator needed by spec/Lexer.tla), upper-"
                "case and capitalised spelling of every keyword occurrence; non-trivial = the original program is accepted")


def layout_corpus(ctx):
    progs = list(corpus_programs())
    ex = os.path.join(vlib.REPO, "docs", "examples")
    for fn in sorted(os.listdir(ex)):
        if fn.endswith(".vore") and fn != "email.vore":
            with open(os.path.join(ex, fn), "rb") as f:
                progs.append(f.read().decode("latin-1"))
    return progs


@check("C15")
def c15(ctx):
    ctx.technique = ("layout as a separate layer: spec/Layout.tla enumerates widen/close/recase edits and TLC checks on the lexer "
                     "automaton that the significant tokens are preserved; every variant compared with its original on the real "
                     "code (accept, syntax tree, results)")
    quick = ctx.tier == "quick"
    progs = layout_corpus(ctx)
    # generated programs: a sample of the C01 scope, rendered
    cases = ctx.gen_cases("C01")
    step = max(1, len(cases) // (30 if quick else 150))
    for c in cases[::step]:
        p = subprocess.run([ctx.get_harness(), "render"], input=json.dumps(c), capture_output=True, text=True)
        if p.returncode == 0:
            progs.append(p.stdout.strip())
    d = ctx.scratch.sub("layout")
    with open(os.path.join(d, "corpus.ndjson"), "w") as f:
        for i, pr in enumerate(progs):
            f.write(json.dumps({"id": i + 1, "src": list(pr.encode("latin-1"))}) + "\n")
    cfg = ("SPECIFICATION Spec\nCONSTANT CorpusFile = \"corpus.ndjson\"\nCONSTANT LexDev = {}\n"
           "INVARIANTS LayoutPreservesLex Emit\nCHECK_DEADLOCK FALSE\n")
    out, st = vlib.run_tlc(d, "Layout", cfg, workers=vlib.NCPU, timeout=900, heap="8g")
    if not st["ok"]:
        raise Undecided("model checking of spec/Layout.tla failed:\n" + vlib.tlc_error_excerpt(out, 40))
    ctx.add_mc("Layout", st, "LayoutPreservesLex for every widen/close/recase edit of every corpus program")
    # sensitivity: with the historical comment automaton the layout layer is NOT transparent (defects repaired in 68e4517, 2ed0496)
    for sw in ("BlockEndLosesParen", "EmptyCommentSwallowsLine"):
        ds = ctx.scratch.sub("layout_" + sw)
        with open(os.path.join(ds, "corpus.ndjson"), "w") as f:
            f.write(json.dumps({"id": 1, "src": list(b"find all 'a' = v")}) + "\n")
        outs, sts = vlib.run_tlc(ds, "Layout", "SPECIFICATION Spec\nCONSTANT CorpusFile = \"corpus.ndjson\"\nCONSTANT LexDev = {\"%s\"}\n"
                                 "INVARIANT LayoutPreservesLex\nCHECK_DEADLOCK FALSE\n" % sw, workers=1, timeout=300, heap="2g")
        ok = "Invariant LayoutPreservesLex is violated" in outs
        ctx.sensitivity.append({"switch": [sw], "expected_violation": "LayoutPreservesLex", "tlc_reported": "LayoutPreservesLex" if ok else None, "ok": ok})
        if not ok:
            raise Undecided("sensitivity run of Layout.tla with %s did not violate LayoutPreservesLex" % sw)
    docs = vlib.tlc_json_lines(out)
    ip, rp = os.path.join(d, "variants.ndjson"), os.path.join(d, "report.json")
    with open(ip, "w") as f:
        for x in docs:
            f.write(x + "\n")
    p = subprocess.run([ctx.get_harness(), "layoutcheck", "-in", ip, "-report", rp,
                        "-replaydir", os.path.join(vlib.VERIF, "replays", "C15")], capture_output=True, text=True)
    if p.returncode != 0 or not os.path.exists(rp):
        raise Undecided("layoutcheck failed: " + p.stderr[-1500:])
    with open(rp) as f:
        rep = json.load(f)
    for k in ("abstained_quirk", "ast_checked", "ast_mismatch", "rejected_by_compile"):
        rep.setdefault(k, 0)
    ctx.absorb("C15-layout-variants", rep, allow_rejects=True)


FIELDS["C16"] = ["spans", "panic", "cpanic", "reject"]
RULES["C16"] = ("every spelling (raw, escape letter, \\\\xHH upper and lower case, backslash-other) of every byte 0x01..0x7f in both "
                "quote styles; \\\\x followed by 0, 1, 2 hex digits and other characters; quotes of the other style; each as "
                "`find all <literal>` on the denoted text, on near misses of the same length and on the doubled text; plus seeded "
                "random ASCII strings with mixed spellings up to length 8; non-trivial = the literal must match")


def lit_spell(rnd, b, q):
    return rnd.choice(lit_spell_opts(b, q))


def lit_spell_opts(b, q):
    opts = ["\\x%02x" % b, "\\x%02X" % b]
    esc = {10: "n", 9: "t", 13: "r", 7: "a", 8: "b", 12: "f", 11: "v"}
    if b in esc:
        opts.append("\\" + esc[b])
    if b not in (q, 92, 0):
        opts.append(chr(b))
    if chr(b) not in "ntrabfvx":
        opts.append("\\" + chr(b))
    return opts


@check("C16")
def c16(ctx):
    ctx.technique = ("string-literal sub-automaton of spec/Lexer.tla: TLC checks every spelling denotes its byte and emits the "
                     "literals; each is compiled from its exact source text and run on the denoted text and near misses")
    quick = ctx.tier == "quick"
    d = ctx.scratch.sub("litmc")
    cfg = ("SPECIFICATION Spec\nCONSTANT MaxLen = 0\nCONSTANT RepSet = \"lex\"\nCONSTANT LexDev = {}\n"
           "INVARIANTS SpellingsDenote IncompleteHexKeeps\nCHECK_DEADLOCK FALSE\n")
    out, st = vlib.run_tlc(d, "MC_Lex", cfg, workers=2, timeout=300, heap="2g")
    if not st["ok"]:
        raise Undecided("SpellingsDenote failed on spec/Lexer.tla:\n" + vlib.tlc_error_excerpt(out))
    ctx.add_mc("MC_Lex:spellings", st, "Denote(Spell(b)) = b for every spelling of every byte 1..127, both quote styles; incomplete \\x keeps its followers")
    d2 = ctx.scratch.sub("litgen")
    out, st2 = vlib.run_tlc(d2, "LitScope", "CONSTANT OutFile = \"cases.ndjson\"\nCONSTANT LexDev = {}\n", workers=1, timeout=300, heap="2g")
    cp = os.path.join(d2, "cases.ndjson")
    if not os.path.exists(cp):
        raise Undecided("LitScope failed:\n" + vlib.tlc_error_excerpt(out))
    with open(cp) as f:
        cases = [json.loads(l) for l in f if l.strip()]
    # seeded mixed strings
    import random
    rnd = random.Random(ctx.seed)
    base = len(cases)
    for k in range(400 if quick else 4000):
        n = rnd.randint(2, 8)
        bs = [rnd.randint(1, 127) for _ in range(n)]
        q = rnd.choice([39, 34])
        body = "".join(lit_spell(rnd, b, q) for b in bs)
        # a raw hex digit right after an incomplete-looking \x cannot occur: every \x here is complete
        near = []
        for _ in range(3):
            j = rnd.randrange(n)
            nb = list(bs)
            nb[j] = bs[j] + 1 if bs[j] < 127 else bs[j] - 1
            near.append(nb)
        cases.append({"id": base + k + 1, "cmds": [{"kind": "find", "amt": {"k": "all"},
                      "body": [{"k": "lit", "s": bs, "neg": False, "ci": False}]}],
                      "srcbytes": list(("find all " + chr(q) + body + chr(q)).encode("latin-1")),
                      "litq": q, "litbody": list(body.encode("latin-1")), "texts": [bs] + near + [bs + bs]})
    # every pair of bytes from a set of delicate ones (line ends, quotes, backslash, letters that name escapes) in
    # every combination of spellings: raw next to raw, raw next to escaped, ...
    delicate = [10, 13, 9, 32, 97, 120, 48, 39, 34, 92, 110]
    base = len(cases)
    k = 0
    for q in (39, 34):
        for b1 in delicate:
            for b2 in delicate:
                for s1 in lit_spell_opts(b1, q)[1:]:
                    for s2 in lit_spell_opts(b2, q)[1:]:
                        if s1.startswith("\\x") and len(s1) == 4 and False:
                            continue
                        k += 1
                        if quick and k % 2 and not (b1 == 13 and b2 == 10):
                            continue
                        bs = [b1, b2]
                        body = s1 + s2
                        cases.append({"id": base + k, "cmds": [{"kind": "find", "amt": {"k": "all"},
                                      "body": [{"k": "lit", "s": bs, "neg": False, "ci": False}]}],
                                      "srcbytes": list(("find all " + chr(q) + body + chr(q)).encode("latin-1")),
                                      "litq": q, "litbody": list(body.encode("latin-1")),
                                      "texts": [bs, [b1], [b2], [b2, b1], [b1, b1, b2, b2], [b1, 32, b2]]})
    # an escaped backslash followed by what would be a hex escape, and an incomplete \x followed by
    # backslash-spelled digits: escapes are decoded left to right, once
    base = max(c["id"] for c in cases)
    k = 0
    foll = [("4", [52]), ("1", [49]), ("f", [102]), ("A", [65]), ("\\4", [52]), ("\\1", [49]), ("z", [122]), ("\\\\", [92])]
    for q in (39, 34):
        for pre, pb in (("", []), ("a", [97])):
            for (f1, b1) in foll:
                for (f2, b2) in foll:
                    bodies = [(pre + "\\\\x" + f1 + f2, pb + [92, 120] + b1 + b2)]
                    if not (len(f1) == 1 and f1 in "41fA"):
                        bodies.append((pre + "\\x" + f1 + f2, pb + [120] + b1 + b2))     # incomplete: x stands for itself
                    for body, bs in bodies:
                        k += 1
                        cases.append({"id": base + k, "cmds": [{"kind": "find", "amt": {"k": "all"},
                                      "body": [{"k": "lit", "s": bs, "neg": False, "ci": False}]}],
                                      "srcbytes": list(("find all " + chr(q) + body + chr(q)).encode("latin-1")),
                                      "litq": q, "litbody": list(body.encode("latin-1")),
                                      "texts": [bs, bs[1:], pb + [int((f1 + f2), 16)] if len(f1 + f2) == 2 and all(c in "41fA" for c in f1 + f2) else bs + bs,
                                                [92] + bs]})
    # escapes of other languages that are NOT escapes here: backslash + character stands for that character
    base = max(c["id"] for c in cases)
    k = 0
    for q in (39, 34):
        for body, bs in (("\\u0041", b"u0041"), ("\\u00e9x", b"u00e9x"), ("\\U0001F600", b"U0001F600"), ("\\101", b"101"), ("\\0", b"0"), ("\\e[0m", b"e[0m"),
                         ("a\\u0041b", b"au0041b"), ("\\N{DASH}", b"N{DASH}"), ("\\cA", b"cA"), ("\\d\\s\\w", b"dsw"), ("\\$\\^\\.", b"$^.")):
            k += 1
            bl = list(bs)
            cases.append({"id": base + k, "cmds": [{"kind": "find", "amt": {"k": "all"}, "body": [{"k": "lit", "s": bl, "neg": False, "ci": False}]}],
                          "srcbytes": list(("find all " + chr(q) + body + chr(q)).encode("latin-1")), "litq": q, "litbody": list(body.encode("latin-1")),
                          "texts": [bl, bl[1:], [65], [195, 169, 120], bl + bl]})
    exps, st3 = vlib.eval_cases(ctx.scratch, cases, module="EvalLit", extra_const="CONSTANT LexDev = {}")
    ctx.states += st3["distinct"]
    ctx.transitions += st3["states"]
    bad = [json.loads(e)["id"] for e in exps if not json.loads(e).get("litok", True)]
    if bad:
        raise Undecided("the lexer specification disagrees with the generator about what literals %s denote" % bad[:5])
    ctx.replay("C16-literals", cases, FIELDS["C16"], exps=exps, reject_violation=True)


# ------------------------------------------------------------------- C14
FIELDS["C14"] = ["spans", "vars", "panic", "cpanic", "reject"]
RULES["C14"] = ("637 regexes of the supported subset (atoms a b . [ab] [^a] [a-b1] \\\\d \\\\s \\\\D \\\\S; quantifiers * + ? {2} {1,2} "
                "{2,} {0,2} greedy and lazy; plain, non-capturing and named groups, also quantified; alternations of single atoms; "
                "^ $; numbered and named back-references; nested groups) x all strings over {a,b,1,space,newline} up to the "
                "tier's length; expectation = the conventional backtracking semantics of spec/Regex.tla; non-trivial = at "
                "least one expected match")


@check("C14")
def c14(ctx):
    ctx.technique = ("conventional regex semantics and the documented translation as TLA+ definitions (spec/Regex.tla); TLC checks "
                     "translation = conventional semantics on the scope and emits the expectation; `find all @/re/` replayed; the "
                     "oracle itself is validated against Go's regexp on the back-reference-free part")
    d = ctx.scratch.sub("rxgen")
    out, st0 = vlib.run_tlc(d, "RegexScope", "CONSTANT OutFile = \"cases.ndjson\"\nCONSTANT Tier = \"%s\"\n" % ctx.tier, workers=1, timeout=300, heap="2g")
    cp = os.path.join(d, "cases.ndjson")
    if not os.path.exists(cp):
        raise Undecided("RegexScope failed:\n" + vlib.tlc_error_excerpt(out))
    with open(cp) as f:
        cases = [json.loads(l) for l in f if l.strip()]
    docs, st = run_sharded_machine(ctx, "EvalRegex", cases, ["TranslationAgrees", "Emit"])
    if len(docs) != len(cases):
        raise Undecided("EvalRegex emitted %d documents for %d cases" % (len(docs), len(cases)))
    ctx.add_mc("EvalRegex", st, "TranslationAgrees: FindAll(ToPattern(re)) = RegexFindAll(re) (spans, numbers, group bindings) for every regex and text of the scope")
    # oracle validation against Go's regexp (not a verdict)
    rp = ctx.scratch.sub("rp_oracle")
    with open(os.path.join(rp, "cases.ndjson"), "w") as f:
        for c in cases:
            f.write(json.dumps(c, separators=(",", ":")) + "\n")
    with open(os.path.join(rp, "expect.ndjson"), "w") as f:
        for e in docs:
            f.write(e + "\n")
    p = subprocess.run([ctx.get_harness(), "regexoracle", "-cases", os.path.join(rp, "cases.ndjson"), "-expect", os.path.join(rp, "expect.ndjson")],
                       capture_output=True, text=True, timeout=900)
    if p.returncode != 0:
        raise Undecided("regexoracle failed: " + p.stderr[-1000:])
    orc = json.loads(p.stdout.strip().splitlines()[-1])
    ctx.diagnostics["oracle_vs_go_regexp"] = orc
    if orc["disagreements"]:
        raise Undecided("the regex oracle of spec/Regex.tla disagrees with Go's regexp: %s" % orc["examples"])
    ctx.replay("C14-regex-literals", cases, FIELDS["C14"], exps=docs, reject_violation=True, want_ast=True)


# ------------------------------------------------------------------- C17
RULES["C17"] = ("result lists (empty, one, many; find and replace; flat variables, and nested variables of named loops) of 9 "
                "programs over all texts of up to 3 tokens from {a, \", \\\\, 0x01, newline, tab, 0x7f, a 2-byte and a 3-byte UTF-8 "
                "character}; both renderings of the list and of single matches; the expected document is MatchDoc of the "
                "specification's matches (spec/MatchDoc.tla) for modelled programs and the in-memory matches always; "
                "non-trivial = at least one match")


def lit(bs):
    return {"k": "lit", "s": list(bs), "neg": False, "ci": False}


def c17_cases():
    toks = [b"a", b'"', b"\\", b"\x01", b"\n", b"\t", b"\x7f", "é".encode(), "€".encode()]
    texts = [[]]
    import itertools
    for n in (1, 2, 3):
        for combo in itertools.product(toks, repeat=n):
            texts.append(list(b"".join(combo)))
    # characters beyond the basic plane (surrogate pairs in JSON escapes), the last BMP character, line separators
    # text that LOOKS like a JSON escape (a backslash followed by u003c), and the characters encoders like to escape
    for e in ("\\u003c", "\\u0026x\\u003e", "<&>", "\\n", "\\\"", "%s%d", "\\u00e9"):
        eb = e.encode()
        texts.append(list(eb))
        texts.append(list(b"a" + eb + b"a"))
    for e in ("\U0001F600", "\U00010000", "\U0010FFFF", "\uffff", "\u2028", "\ud7ff", "\ue000"):
        eb = e.encode()
        texts.append(list(eb))
        texts.append(list(eb + eb))
        for t in toks:
            texts.append(list(eb + t))
            texts.append(list(t + eb + t))
    anyc = {"k": "cls", "c": "any", "neg": False}
    cap = lambda name, body: {"k": "cap", "name": name, "body": body}
    loop = lambda mn, mx, body: {"k": "loop", "min": mn, "max": mx, "few": False, "name": "", "body": body}
    find = lambda body: {"kind": "find", "amt": {"k": "all"}, "body": body}
    repl = lambda body, w: {"kind": "replace", "amt": {"k": "all"}, "body": body, "with": w}
    progs = [
        [find([loop(1, -1, anyc)])],
        [find([cap("x", anyc), loop(0, 1, cap("y", anyc))])],
        [repl([anyc], [{"k": "str", "s": [60, 34, 92]}, {"k": "name", "name": "value"}, {"k": "str", "s": [62]}])],
        [find([{"k": "cls", "c": "whitespace", "neg": True}])],
        [repl([{"k": "or", "l": lit(b'"'), "r": lit(b"\\")}], [{"k": "name", "name": "nothing"}])],
        [find([lit(b"a")]), repl([cap("q", lit(b"a"))], [{"k": "name", "name": "q"}, {"k": "name", "name": "q"}])],
        [find([lit(b"zzz")])],
        [repl([lit(b"a")], [{"k": "str", "s": []}])],                      # the empty replacement is a replacement
        [repl([lit(b"a")], [{"k": "str", "s": [88]}]), find([anyc]), repl([lit(b'"')], [{"k": "name", "name": "value"}]), find([lit(b"a")])],
        [repl([cap("q", anyc)], [{"k": "name", "name": "q"}, {"k": "str", "s": []}, {"k": "name", "name": "matchNumber"}])],
    ]
    cases = [{"id": i + 1, "cmds": p, "texts": texts} for i, p in enumerate(progs)]
    rel = [
        "find all at least 1 (any = c) named lp",
        "find all at most 2 ( any = c maybe ('a' = d) ) named outer '\"'",
    ]
    for s in rel:
        cases.append({"id": len(cases) + 1, "src": s, "texts": texts, "relational": True})
    return cases


@check("C17")
def c17(ctx):
    ctx.technique = ("document structure as a TLA+ definition (spec/MatchDoc.tla) evaluated by TLC on the specification's matches; "
                     "both renderings decoded and compared with it and with the in-memory matches")
    cases = c17_cases()
    if ctx.tier == "quick":
        for c in cases:
            c["texts"] = c["texts"][:1] + c["texts"][1::3]
    modelled = [c for c in cases if not c.get("relational")]
    exps, st = vlib.eval_cases(ctx.scratch, modelled, module="MatchDoc", emit="EmitDoc")
    ctx.states += st["distinct"]
    ctx.transitions += st["states"]
    d = ctx.scratch.sub("json")
    cp, ep, rp = [os.path.join(d, x) for x in ("cases.ndjson", "expect.ndjson", "report.json")]
    with open(cp, "w") as f:
        for c in cases:
            f.write(json.dumps(c, separators=(",", ":")) + "\n")
    with open(ep, "w") as f:
        for e in exps:
            f.write(e + "\n")
    p = subprocess.run([ctx.get_harness(), "jsoncheck", "-cases", cp, "-expect", ep, "-report", rp,
                        "-replaydir", os.path.join(vlib.VERIF, "replays", "C17")], capture_output=True, text=True)
    if p.returncode != 0 or not os.path.exists(rp):
        raise Undecided("jsoncheck failed: " + p.stderr[-1500:])
    with open(rp) as f:
        rep = json.load(f)
    for k in ("abstained_quirk", "ast_checked", "ast_mismatch", "rejected_by_compile"):
        rep.setdefault(k, 0)
    ctx.absorb("C17-json", rep)


# ------------------------------------------------------------------- C20
RULES["C20"] = ("(i) every pattern of length <= 4 (quick) / 5 over {a, b, '.', '*'} with at most 3 stars x every file name of "
                "length <= 4/5 over {a, b, '.'}, materialised as one directory of 118 (quick) files; (ii) a directory tree of "
                "depth 3 x 190 patterns with 1..3 segments (literal and wildcard directory segments, no all-star directory "
                "segment, no . / ..); each pattern relative and absolute; expected list = FileList of spec/Glob.tla; a case is "
                "one (pattern, tree); non-trivial = the expected list is non-empty")


@check("C20")
def c20(ctx):
    ctx.technique = "segment match and tree walk as TLA+ definitions (spec/Glob.tla) evaluated by TLC; lists compared with ParsePath/GetFileList on materialised trees"
    dm = ctx.scratch.sub("mcglob")
    outm, stm = vlib.run_tlc(dm, "MC_Glob", "SPECIFICATION Spec\nINVARIANT DefinitionsAgree\nCONSTANT OutFile = \"unused.ndjson\"\n"
                             "CONSTANT Tier = \"%s\"\nCHECK_DEADLOCK FALSE\n" % ctx.tier, workers=8, timeout=600, heap="4g")
    if not stm["ok"]:
        raise Undecided("MC_Glob failed:\n" + vlib.tlc_error_excerpt(outm))
    ctx.add_mc("MC_Glob", stm, "the recursive segment match agrees with the split-along-literal-pieces definition for every pattern x name of the scope")
    d = ctx.scratch.sub("glob")
    out, st = vlib.run_tlc(d, "Glob", "CONSTANT OutFile = \"cases.ndjson\"\nCONSTANT Tier = \"%s\"\n" % ctx.tier, workers=1, timeout=600, heap="4g")
    cp, rp = os.path.join(d, "cases.ndjson"), os.path.join(d, "report.json")
    if not os.path.exists(cp) or not st["ok"]:
        raise Undecided("Glob.tla failed:\n" + vlib.tlc_error_excerpt(out))
    p = subprocess.run([ctx.get_harness(), "globcheck", "-cases", cp, "-report", rp,
                        "-replaydir", os.path.join(vlib.VERIF, "replays", "C20")], capture_output=True, text=True, timeout=900)
    if p.returncode != 0 or not os.path.exists(rp):
        raise Undecided("globcheck failed: " + p.stderr[-1500:])
    with open(rp) as f:
        rep = json.load(f)
    for k in ("abstained_quirk", "ast_checked", "ast_mismatch", "rejected_by_compile"):
        rep.setdefault(k, 0)
    ctx.absorb("C20-glob", rep)
    m = re.search(r'"patterns", (\d+), (\d+), "names", (\d+)', out)
    if m:
        ctx.diagnostics["scope"] = {"flat_patterns": int(m.group(1)), "tree_patterns": int(m.group(2)), "names": int(m.group(3)),
                                    "pattern_name_pairs": int(m.group(1)) * int(m.group(3))}


# ------------------------------------------------------------------- C18
RULES["C18"] = ("the full cross product of spec/Cli.tla: source kind {-com, -src, both, neither} x stdout format {text, -json, "
                "-formatted-json, both} x -json-file x -formatted-json-file x replace mode {default, NEW, NOTHING, OVERWRITE, "
                "unknown} x -no-output x program {find with matches, find without, replace, failing, two commands} x files {one, "
                "glob, none matching, flag absent} = 12800 configurations (all executed); non-trivial = a documented "
                "invocation that prints or writes results")


@check("C18")
def c18(ctx):
    ctx.technique = ("flag-vector state machine spec/Cli.tla model-checked (final-state invariants, termination) over all "
                     "configurations; each configuration executed on the binary built from the working tree and compared with the "
                     "model's final state and with the library's result")
    d = ctx.scratch.sub("cli")
    cfg = ("SPECIFICATION Spec\nINVARIANTS DocumentedExitsZero InvalidRefused Delivered ModeHonoured Emit\nPROPERTY Terminates\n"
           "CHECK_DEADLOCK FALSE\n")
    out, st = vlib.run_tlc(d, "Cli", cfg, workers=8, timeout=600, heap="4g")
    if not st["ok"]:
        raise Undecided("model checking of spec/Cli.tla failed:\n" + vlib.tlc_error_excerpt(out))
    ctx.add_mc("Cli", st, "DocumentedExitsZero, InvalidRefused, Delivered, ModeHonoured in every final state; <>exit for every configuration")
    docs = vlib.tlc_json_lines(out)
    ep, rp = os.path.join(d, "expect.ndjson"), os.path.join(d, "report.json")
    with open(ep, "w") as f:
        for x in docs:
            f.write(x + "\n")
    binary = vlib.build_vore_binary()
    p = subprocess.run([ctx.get_harness(), "clicheck", "-binary", binary, "-expect", ep, "-report", rp,
                        "-every", "1",
                        "-replaydir", os.path.join(vlib.VERIF, "replays", "C18")], capture_output=True, text=True, timeout=1800)
    if p.returncode != 0 or not os.path.exists(rp):
        raise Undecided("clicheck failed: " + p.stderr[-1500:])
    with open(rp) as f:
        rep = json.load(f)
    for k in ("abstained_quirk", "ast_checked", "ast_mismatch", "rejected_by_compile", "programs"):
        rep.setdefault(k, 0)
    ctx.absorb("C18-cli", rep)
    ctx.exhaustive = ctx.tier != "quick"


# ------------------------------------------------------- C13 histories, C19
def session_histories(ctx):
    """All orders of repeated Compile/Run calls (spec/Histories.tla) replayed on live objects."""
    anyc = {"k": "cls", "c": "any", "neg": False}
    la, lb = lit(b"a"), lit(b"b")
    find = lambda body: {"kind": "find", "amt": {"k": "all"}, "body": body}
    src0 = {"id": 1, "defs": [{"name": "p", "es": [{"k": "or", "l": la, "r": lb}], "pred": []}],
            "cmds": [find([{"k": "ref", "name": "p"}, {"k": "ref", "name": "p"}])]}
    src1 = {"id": 2, "cmds": [find([{"k": "loop", "min": 1, "max": -1, "few": False, "name": "",
                                     "body": {"k": "cap", "name": "x", "body": {"k": "seq", "es": [{"k": "in", "neg": False, "items": [la, lb]}]}}},
                                    {"k": "loop", "min": 0, "max": 1, "few": False, "name": "", "body": {"k": "ref", "name": "x"}}])]}
    texts = [list(b"abba b"), list(b"aab")]
    grp = lambda es: {"k": "seq", "es": es}
    capn = lambda name, e: grp([{"k": "cap", "name": name, "body": grp([e])}])
    src2 = {"id": 3, "cmds": [find([grp([capn("_1", la), capn("_2", lb)])])], "srcbytes": list(b"find all @/(a)(b)/")}
    for c in (src0, src1, src2):
        c["texts"] = texts
    exps, st = vlib.eval_cases(ctx.scratch, [src0, src1, src2])
    ctx.states += st["distinct"]
    ctx.transitions += st["states"]
    expect = {}
    for e in exps:
        doc = json.loads(e)
        for ti, r in enumerate(doc["r"]):
            expect["%d,%d" % (doc["id"] - 1, ti)] = r["ms"]
    srcs = []
    for c in (src0, src1, src2):
        p = subprocess.run([ctx.get_harness(), "render"], input=json.dumps(c), capture_output=True, text=True)
        srcs.append(p.stdout.strip())
    srcs.append("find all @/(a)(b/ 'x'")          # source 3: rejected after two regex groups were opened
    d = ctx.scratch.sub("hist")
    n = 4 if ctx.tier == "quick" else 5
    out, sth = vlib.run_tlc(d, "Histories", "SPECIFICATION Spec\nCONSTANTS NSrc = 4\nNText = 2\nMaxLen = %d\nFailSrc = 3\nINVARIANTS RunsWellFormed Emit\nCHECK_DEADLOCK FALSE\n" % n,
                            workers=4, timeout=600, heap="2g")
    if not sth["ok"]:
        raise Undecided("Histories.tla failed:\n" + vlib.tlc_error_excerpt(out))
    ctx.add_mc("Histories", sth, "all histories of <= %d Compile/Run calls over 3 sources (one with regex groups) + 1 rejected source x 2 texts" % n)
    ip, rp = os.path.join(d, "in.ndjson"), os.path.join(d, "report.json")
    with open(ip, "w") as f:
        for k, doc in enumerate(vlib.tlc_json_lines(out)):
            h = json.loads(doc)
            h.update({"id": k + 1, "srcs": srcs, "texts": texts, "expect": expect, "failsrc": 3})
            f.write(json.dumps(h, separators=(",", ":")) + "\n")
    p = subprocess.run([ctx.get_harness(), "session", "-in", ip, "-report", rp], capture_output=True, text=True, timeout=900)
    if p.returncode != 0 or not os.path.exists(rp):
        raise Undecided("session replay failed: " + p.stderr[-1500:])
    with open(rp) as f:
        rep = json.load(f)
    for k in ("abstained_quirk", "ast_checked", "ast_mismatch", "rejected_by_compile"):
        rep.setdefault(k, 0)
    for v in rep["violations"]:
        v["property"] = ctx.prop
    ctx.absorb(ctx.prop + "-histories", rep)
    # sources outside the modelled subsets (several regex literals, transforms with scratch names): the expectation of a
    # call is what it returns in a process of its own; every history must give every call that result
    xs = ["find all @/(r)/ @/x(s)/", "find all @/x(s)/", "set f to transform set x to 1 set y to true return 'a' end replace all 'r' with f",
          "set g to transform if y == '' then return head x + match end return 'n' end replace all 's' with g"]
    xtexts = [list(b"rxs xs"), list(b"xsr")]
    xexp = {}
    for k, sct in enumerate(xs):
        p = subprocess.run([ctx.get_harness(), "alone1"], input=json.dumps({"src": sct, "texts": xtexts}), capture_output=True, text=True, timeout=60)
        try:
            doc = json.loads(p.stdout)
        except Exception:
            raise Undecided("alone1 failed: " + p.stderr[-500:])
        if "runs" not in doc:
            raise Undecided("a history source does not compile alone: %s: %s" % (sct, doc))
        for ti, ms in enumerate(doc["runs"]):
            xexp["%d,%d" % (k, ti)] = ms
    d2 = ctx.scratch.sub("hist2")
    out2, sth2 = vlib.run_tlc(d2, "Histories", "SPECIFICATION Spec\nCONSTANTS NSrc = 4\nNText = 2\nMaxLen = %d\nFailSrc = 99\nINVARIANTS RunsWellFormed Emit\nCHECK_DEADLOCK FALSE\n" % n,
                              workers=4, timeout=600, heap="2g")
    if not sth2["ok"]:
        raise Undecided("Histories.tla failed:\n" + vlib.tlc_error_excerpt(out2))
    ip2, rp2 = os.path.join(d2, "in.ndjson"), os.path.join(d2, "report.json")
    with open(ip2, "w") as f:
        for k, doc in enumerate(vlib.tlc_json_lines(out2)):
            h = json.loads(doc)
            h.update({"id": k + 1, "srcs": xs, "texts": xtexts, "expect": xexp})
            f.write(json.dumps(h, separators=(",", ":")) + "\n")
    p = subprocess.run([ctx.get_harness(), "session", "-in", ip2, "-report", rp2], capture_output=True, text=True, timeout=900)
    if p.returncode != 0 or not os.path.exists(rp2):
        raise Undecided("session replay failed: " + p.stderr[-1500:])
    with open(rp2) as f:
        rep2 = json.load(f)
    for k in ("abstained_quirk", "ast_checked", "ast_mismatch", "rejected_by_compile"):
        rep2.setdefault(k, 0)
    for v in rep2["violations"]:
        v["property"] = ctx.prop
    ctx.absorb(ctx.prop + "-histories-alone", rep2)


RULES["C19"] = ("(i) all interleavings of 3 concurrent Compile processes (2, 1, 2 regex groups) of spec/Session.tla, locked "
                "(must be sequentially equivalent) and unlocked (must give a counterexample); (ii) stress runs of 8 goroutines x "
                "40 (quick) / 200 calls mixing Compile of sources with and without regex groups, Run on shared and on private "
                "programs, under the Go race detector, each call compared with its sequential result; the recorded accesses of "
                "the shared counter (hook H3, yields inside the hook) validated against spec/SessionTrace.tla; a case is one call; "
                "non-trivial = a Compile of a source with regex groups (>= 2 counter accesses)")


@check("C19")
def c19(ctx):
    ctx.technique = ("process model of the shared group counter spec/Session.tla model-checked (all interleavings; unlocked variant "
                     "gives the counterexample); real goroutine runs under -race compared with sequential results and their H3 "
                     "counter-access traces validated against spec/SessionTrace.tla")
    quick = ctx.tier == "quick"
    d = ctx.scratch.sub("mcsession")
    cfg = ("SPECIFICATION Spec\nCONSTANTS Procs <- ProcsDef\nG <- GDef\nLocked = %s\nINVARIANTS SequentialNames %s\n%sCHECK_DEADLOCK FALSE\n")
    out, st = vlib.run_tlc(d, "MC_Session", cfg % ("TRUE", "Exclusive", "PROPERTY AllFinish\n"), workers=4, timeout=300, heap="2g")
    if not st["ok"]:
        raise Undecided("MC_Session (locked) failed:\n" + vlib.tlc_error_excerpt(out))
    ctx.add_mc("Session(locked)", st, "SequentialNames and Exclusive in every interleaving of 3 Compile processes; all finish")
    d2 = ctx.scratch.sub("mcsession_unlocked")
    out2, st2 = vlib.run_tlc(d2, "MC_Session", cfg % ("FALSE", "", ""), workers=4, timeout=300, heap="2g")
    found = re.search(r"Error: Invariant (\w+) is violated", out2)
    ok = bool(found) and found.group(1) == "SequentialNames"
    ctx.sensitivity.append({"switch": ["Locked = FALSE"], "expected_violation": "SequentialNames", "tlc_reported": found.group(1) if found else None, "ok": ok})
    if not ok:
        raise Undecided("the unlocked counter model did not produce the mis-numbering counterexample")
    # real goroutines under the race detector
    race = vlib.build_harness(race=True)
    total_calls, total_events, nontriv = 0, 0, 0
    rounds = 3 if quick else 10
    for r in range(rounds):
        dd = ctx.scratch.sub("conc%d" % r)
        env = dict(os.environ, GORACE="halt_on_error=0 exitcode=0")
        p = subprocess.run([race, "concurrency", "-seed", str(ctx.seed * 100 + r), "-goroutines", "8", "-iters", "40" if quick else "200",
                            "-trace", os.path.join(dd, "T.ndjson"), "-report", os.path.join(dd, "rep.json")],
                           capture_output=True, text=True, timeout=600, env=env)
        if p.returncode != 0 or not os.path.exists(os.path.join(dd, "rep.json")):
            fatal = re.search(r"fatal error: (concurrent map[^\n]*|all goroutines are asleep[^\n]*)", p.stderr)
            if fatal or "WARNING: DATA RACE" in p.stderr:
                # the Go runtime itself stopped the process: unsynchronised access inside the library (not recoverable)
                where = [l.strip() for l in p.stderr.splitlines() if "/libvore/" in l][:4]
                ctx.violations.append({"kind": "race", "sig": "runtime-fatal", "family": "C19-goroutines",
                                       "detail": "the Go runtime stopped the concurrent run: %s %s" % (fatal.group(0) if fatal else "DATA RACE", " | ".join(where)),
                                       "src": "", "text": None, "case": {"seed": ctx.seed * 100 + r, "round": r}})
                return
            raise Undecided("concurrency run failed: " + p.stderr[-2000:])
        with open(os.path.join(dd, "rep.json")) as f:
            rep = json.load(f)
        total_calls += rep["calls"]
        total_events += rep["events"]
        case = {"seed": ctx.seed * 100 + r, "goroutines": 8, "what": "vharness-race concurrency"}
        if "DATA RACE" in p.stderr:
            first = p.stderr[p.stderr.index("WARNING: DATA RACE"):][:1500]
            ctx.violations.append({"kind": "race", "sig": "race", "family": "C19-goroutines", "src": "", "text": None, "case": case,
                                   "detail": "the race detector reports unsynchronised access: " + " ".join(first.split())[:600]})
        for pr in (rep.get("problems") or [])[:5]:
            ctx.violations.append({"kind": "result", "sig": "result", "family": "C19-goroutines", "src": "", "text": None, "case": case,
                                   "detail": "a concurrent call did not return what it returns alone: " + pr})
        # the recorded counter accesses are a behaviour of the locked model
        tcfg = "SPECIFICATION TraceSpec\nCONSTANT TraceFile = \"T.ndjson\"\nCONSTRAINT HighWater\nPOSTCONDITION TraceAccepted\nCHECK_DEADLOCK FALSE\n"
        if rep["events"] > 0:
            tout, tst = vlib.run_tlc(dd, "SessionTrace", tcfg, workers=1, timeout=600, heap="4g")
            ctx.states += tst["distinct"]
            ctx.transitions += tst["states"]
            if "TRACE-REJECTED" in tout:
                m = re.search(r'"TRACE-REJECTED at line",\s*(\d+)', tout)
                ctx.violations.append({"kind": "interleaved", "sig": "interleaved", "family": "C19-goroutines", "src": "", "text": None, "case": case,
                                       "detail": "counter sections of two goroutines interleave (trace line %s): the shared group counter is accessed without mutual exclusion" % (m.group(1) if m else "?")})
            elif not tst["ok"]:
                raise Undecided("TLC failed on spec/SessionTrace.tla:\n" + vlib.tlc_error_excerpt(tout))
    ctx.evaluations += total_calls
    ctx.nontrivial += total_events // 3
    ctx.families["C19-goroutines"] = {"rounds": rounds, "calls": total_calls, "counter_events": total_events}
    ctx.samples.append({"family": "C19-goroutines", "round": {"goroutines": 8, "sources": 7, "calls": total_calls // rounds}})
    ctx.exhaustive = False
    # repeated Compile/Run histories (sequential independence)
    session_histories(ctx)


# ------------------------------------------------ seeded random programs
def random_cases(seed, n, max_nodes=9, ntexts=14, maxlen=8, with_caps=True):
    """Seeded generator of well-formed programs beyond the structured scopes
    (any nesting of the modelled constructs up to max_nodes), each with texts
    biased to near-matches: strings over the program's alphabet."""
    import random
    rnd = random.Random(seed)
    A, B, C = 97, 98, 99

    def L(bs, neg=False, ci=False):
        return {"k": "lit", "s": list(bs), "neg": neg, "ci": ci}

    class G:
        def __init__(self):
            self.budget = max_nodes
            self.caps = []
            self.subs = []
            self.ncap = 0
            self.nsub = 0
            self.in_sub = None

        def leaf(self):
            self.budget -= 1
            r = rnd.random()
            if r < 0.45:
                return L(rnd.choice([[A], [B], [A, B], [B, A], [C]]))
            if r < 0.55:
                return L([rnd.choice([A, B])], neg=True)
            if r < 0.62:
                return L([65], ci=True)
            if r < 0.78:
                return {"k": "cls", "c": rnd.choice(["any", "digit", "letter", "whitespace", "lower"]), "neg": rnd.random() < 0.25}
            if r < 0.90:
                return {"k": "anc", "c": rnd.choice(["linestart", "lineend", "filestart", "fileend", "wordstart", "wordend"]), "neg": rnd.random() < 0.2}
            if self.caps and with_caps and rnd.random() < 0.7:
                return {"k": "ref", "name": rnd.choice(self.caps)}
            if self.subs and rnd.random() < 0.7:
                return {"k": "ref", "name": rnd.choice(self.subs)}
            return L([A])

        def litkind(self, depth):
            if self.budget <= 1 or depth > 3 or rnd.random() < 0.55:
                return self.leaf()
            self.budget -= 1
            n = rnd.randint(1, 3)
            return {"k": "seq", "es": [self.expr(depth + 1) for _ in range(n)]}

        def expr(self, depth):
            if self.budget <= 1 or depth > 3:
                return self.leaf()
            r = rnd.random()
            if r < 0.30:
                return self.litkind(depth)
            if r < 0.52:
                self.budget -= 1
                mn, mx = rnd.choice([(0, 1), (0, -1), (1, -1), (0, 2), (1, 2), (2, 2), (2, -1), (1, 3)])
                body = self.expr(depth + 1)
                if body["k"] == "loop":
                    body = {"k": "seq", "es": [body]}
                few = rnd.random() < 0.4 and mn != mx
                return {"k": "loop", "min": mn, "max": mx, "few": few, "name": "", "body": body}
            if r < 0.68:
                self.budget -= 1
                l = self.litkind(depth + 1)
                rr = self.litkind(depth + 1)
                if rnd.random() < 0.25 and self.budget > 1:
                    rr = {"k": "or", "l": rr, "r": self.litkind(depth + 1)}
                return {"k": "or", "l": l, "r": rr}
            if r < 0.78:
                self.budget -= 1
                items = []
                for _ in range(rnd.randint(1, 3)):
                    t = rnd.random()
                    if t < 0.5:
                        items.append(L([rnd.choice([A, B, C])]))
                    elif t < 0.75:
                        items.append({"k": "rng", "a": [A], "b": [B]})
                    else:
                        items.append({"k": "cls", "c": rnd.choice(["digit", "whitespace", "upper"]), "neg": False})
                return {"k": "in", "items": items, "neg": rnd.random() < 0.35}
            if r < 0.90 and with_caps and self.in_sub is None:
                self.budget -= 1
                body = self.litkind(depth + 1)
                self.ncap += 1
                name = "v%d" % self.ncap
                node = {"k": "cap", "name": name, "body": body}
                self.caps.append(name)
                return node
            if self.in_sub is None and depth <= 1:
                self.budget -= 1
                self.nsub += 1
                name = "s%d" % self.nsub
                self.in_sub = name
                first = L([rnd.choice([A, B])])                 # a subroutine consumes before it may recurse
                rest = [self.expr(depth + 2) for _ in range(rnd.randint(0, 2))]
                if rnd.random() < 0.4:
                    rest.append({"k": "loop", "min": 0, "max": 1, "few": False, "name": "", "body": {"k": "ref", "name": name}})
                self.in_sub = None
                self.subs.append(name)
                return {"k": "sub", "name": name, "es": [first] + rest}
            return self.leaf()

    def no_cap_in_loop(e, inloop=False):
        """captures under unnamed loops with min>=1 are unrolled: keep them out of loop bodies with min>=1 that are also referenced... fine: only reject capture names duplicated"""
        return True

    def star_height(e):
        """nesting depth of unbounded loops (calls count through their subroutine body)"""
        k = e.get("k")
        if k == "loop":
            h = star_height(e["body"])
            return h + 1 if e["max"] == -1 else h
        if k in ("seq", "sub"):
            return max([star_height(x) for x in e["es"]] + [0])
        if k == "or":
            return max(star_height(e["l"]), star_height(e["r"]))
        if k == "cap":
            return star_height(e["body"])
        if k == "ref":
            return 1 if e["name"].startswith("s") else 0      # a call may recurse
        return 0

    def loops_in(e):
        k = e.get("k")
        if k == "loop":
            return 1 + loops_in(e["body"])
        if k in ("seq", "sub"):
            return sum(loops_in(x) for x in e["es"])
        if k == "or":
            return loops_in(e["l"]) + loops_in(e["r"])
        if k == "cap":
            return loops_in(e["body"])
        return 0

    cases = []
    tries = 0
    while len(cases) < n and tries < n * 40:
        tries += 1
        g = G()
        body = [g.expr(0) for _ in range(rnd.randint(1, 3))]
        # keep the cost of the backtracking search polynomial and small: no unbounded loop inside an
        # unbounded loop, at most three loops
        if max(star_height(x) for x in body) > 1 or sum(loops_in(x) for x in body) > 3:
            continue
        js = json.dumps(body)
        # a back-reference or call must follow its definition in generation order: defs are only
        # offered after they were generated, so this holds; captures inside subroutine bodies are avoided
        sig = {A, B}
        if '"digit"' in js or '"letter"' in js:
            sig.add(49)
        if '"whitespace"' in js or 'word' in js:
            sig.add(32)
        if 'line' in js or '"whitespace"' in js or '"any"' in js:
            sig.add(10)
        if '"ci": true' in js or '"upper"' in js or '"lower"' in js or '"ref"' in js:
            sig.add(65)
        if '[99]' in js:
            sig.add(C)
        sig = sorted(sig)
        texts = []
        for _ in range(ntexts):
            texts.append([rnd.choice(sig) if rnd.random() < 0.85 else rnd.choice([A, B]) for _ in range(rnd.randint(1, maxlen))])
        cases.append({"id": len(cases) + 1, "cmds": [{"kind": "find", "amt": {"k": "all"}, "body": body}], "texts": texts})
    return cases
