"""Per-property check definitions."""
import json
import os
import subprocess
import sys
import time

import vlib
from vlib import Undecided, log

CHECKS = {}


def check(prop):
    def deco(f):
        CHECKS[prop] = f
        return f
    return deco


class Ctx:
    def __init__(self, prop, tier, seed):
        self.prop = prop
        self.tier = tier
        self.seed = seed
        self.scratch = None
        self.states = 0
        self.transitions = 0
        self.evaluations = 0
        self.nontrivial = 0
        self.violations = []      # dicts: kind, sig, detail, src, text, replay
        self.samples = []
        self.families = {}        # family -> summary dict
        self.diagnostics = {}
        self.mc_jobs = []         # model-checking jobs on the specification itself
        self.sensitivity = []
        self.assumptions = []
        self.exhaustive = True
        self.harness = None
        self.technique = ""

    # ---------------------------------------------------------------- tools
    def get_harness(self):
        if self.harness is None:
            self.harness = vlib.build_harness()
        return self.harness

    def gen_cases(self, family, module="ScopeGen", extra_const=""):
        """TLC as enumerator: the cases of one scope family."""
        d = self.scratch.sub("gen_" + family)
        cfg = 'CONSTANT Family = "%s"\nCONSTANT Tier = "%s"\nCONSTANT OutFile = "cases.ndjson"\n%s' % (
            family, self.tier, extra_const)
        out, st = vlib.run_tlc(d, module, cfg, workers=1, timeout=600, heap="4g")
        p = os.path.join(d, "cases.ndjson")
        if not os.path.exists(p) or "Error" in out and "No error" not in out:
            raise Undecided("scope enumeration failed for %s:\n%s" % (family, vlib.tlc_error_excerpt(out)))
        with open(p) as f:
            cases = [json.loads(l) for l in f if l.strip()]
        if not cases:
            raise Undecided("scope %s is empty" % family)
        return cases

    def replay(self, family, cases, fields, mode="string", want_ast=True, reject_violation=False,
               timeout=30, extra=(), eval_timeout=900, exps=None):
        """Evaluate the specification on the cases (TLC), force them through the
        implementation, compare."""
        t0 = time.time()
        if exps is None:
            exps, st = vlib.eval_cases(self.scratch, cases, timeout=eval_timeout)
            self.states += st["distinct"]
            self.transitions += st["states"]
        t1 = time.time()
        rep = vlib.run_replay(self.get_harness(), self.scratch, self.prop, family, cases, exps, fields,
                              mode=mode, want_ast=want_ast, reject_violation=reject_violation,
                              timeout=timeout, extra=extra)
        t2 = time.time()
        self.absorb(family, rep, tlc_s=t1 - t0, replay_s=t2 - t1)
        return rep

    def absorb(self, family, rep, tlc_s=0.0, replay_s=0.0):
        self.evaluations += rep["evaluations"]
        self.nontrivial += rep["distinct_nontrivial"]
        for v in rep["violations"]:
            v["family"] = family
            self.violations.append(v)
        extra_v = rep["n_violations"] - len(rep["violations"])
        self.families[family] = {
            "programs": rep["programs"], "evaluations": rep["evaluations"],
            "nontrivial": rep["distinct_nontrivial"], "abstained_quirk": rep["abstained_quirk"],
            "rejected_by_compile": rep["rejected_by_compile"], "ast_checked": rep["ast_checked"],
            "ast_mismatch": rep["ast_mismatch"], "other_diffs": rep["other_diffs"],
            "violations": rep["n_violations"], "file_runs": rep.get("file_runs", 0),
            "expected_matches_total": rep.get("expected_matches_total", 0),
            "tlc_s": round(tlc_s, 1), "replay_s": round(replay_s, 1),
        }
        if extra_v > 0:
            self.families[family]["violations_not_listed"] = extra_v
        if rep.get("undecided"):
            self.diagnostics.setdefault("undecided", []).extend(rep["undecided"][:5])
        for s in rep.get("samples", [])[:2]:
            if len(self.samples) < 8:
                self.samples.append({"family": family, **s})
        if rep["programs"] > 0 and rep["rejected_by_compile"] * 2 > rep["evaluations"] and rep["n_violations"] == 0:
            raise Undecided("family %s: more than half of the scope was rejected by Compile; the check would be vacuous" % family)

    def add_mc(self, name, stats, what, ok=True):
        self.states += stats.get("distinct", 0)
        self.transitions += stats.get("states", 0)
        self.mc_jobs.append({"job": name, "distinct_states": stats.get("distinct", 0),
                             "states_generated": stats.get("states", 0), "what": what, "ok": ok,
                             "wall_s": round(stats.get("wall_s", 0), 1)})

    # --------------------------------------------------------------- verdict
    def finish(self, wall):
        kfs = vlib.load_known_findings()
        new = []
        hit = {}
        for v in self.violations:
            k = vlib.kf_match(kfs, self.prop, v)
            if k is not None:
                hit.setdefault(k["id"], []).append(v)
            else:
                new.append(v)
        for k in kfs:
            if k.get("status") == "open" and k.get("property") == self.prop:
                n = len(hit.get(k["id"], []))
                print("KNOWN-FINDING: property=%s %s (%s; reproduced %d times in this run)" % (
                    self.prop, k["what"], k["id"], n))
        coverage = {
            "states": max(self.states, 0), "transitions": max(self.transitions, 0),
            "traces_validated_against_impl": self.evaluations,
            "evaluations": self.evaluations, "distinct_nontrivial": self.nontrivial,
            "rule": RULES.get(self.prop, ""),
            "samples": self.samples[:8] or [{"note": "no sample recorded"}],
            "families": self.families, "spec_model_checking_jobs": self.mc_jobs,
            "sensitivity": self.sensitivity, "diagnostics": self.diagnostics,
            "exhaustive": bool(self.exhaustive),
            "known_findings_reproduced": {k: len(v) for k, v in hit.items()},
            "technique": self.technique,
        }
        vlib.write_evidence(self.prop, self.tier, self.seed, "model_checking", coverage, wall, len(new),
                            assumptions=self.assumptions)
        if new:
            seen = set()
            for v in new:
                rp = v.get("replay") or self.save_replay(v)
                if rp in seen:
                    continue
                seen.add(rp)
                print("VIOLATION property=%s replay=%s" % (self.prop, rp))
                log("  [%s/%s] %s :: %s :: text=%s" % (v.get("family"), v.get("kind"), v.get("detail"),
                                                    (v.get("src") or "")[:200], v.get("text")))
            return 1
        log("%s %s: ok, %d evaluations, %d TLC states, %.1fs" % (self.prop, self.tier, self.evaluations, self.states, wall))
        return 0

    def save_replay(self, v):
        d = os.path.join(vlib.VERIF, "replays", self.prop)
        os.makedirs(d, exist_ok=True)
        import hashlib
        h = hashlib.sha1(json.dumps(v, sort_keys=True, default=str).encode()).hexdigest()[:16]
        p = os.path.join(d, h + ".json")
        with open(p, "w") as f:
            json.dump(v, f, indent=1, default=str)
        return p


RULES = {}


def replay_one(ctx, path):
    """Re-run exactly one recorded case through TLC and the implementation."""
    with open(path) as f:
        v = json.load(f)
    if "case" not in v or v.get("case") is None:
        raise Undecided("replay file has no case")
    case = dict(v["case"])
    case.pop("sigma", None)
    case["texts"] = [v["text"]]
    case["id"] = 1
    fields = FIELDS.get(ctx.prop, ["spans", "vars", "num", "loc", "val", "repl", "wf", "panic"])
    rep = ctx.replay("replay", [case], fields, mode=v.get("mode", "string"))
    for x in rep["violations"]:
        print("VIOLATION property=%s replay=%s" % (ctx.prop, path))
        log("  " + x["detail"])
        return 1
    print("replay: no violation on this tree")
    return 0


FIELDS = {
    "C01": ["spans", "panic"],
    "C02": ["spans", "vars", "panic"],
    "C03": ["spans", "vars", "num", "loc", "val", "wf", "panic"],
    "C04": ["spans", "vars", "num", "loc", "val", "repl", "wf", "panic"],
}

RULES["C01"] = ("programs: TLC enumerates spec/Scope.tla C01_* (every construct under every other to depth 2, "
                "subroutines, captures, global patterns with predicates); inputs: all strings over the program's "
                "alphabet up to the tier's length; a case is one (program, text) pair; non-trivial = the "
                "specification expects at least one match; distinct by (source, text)")


@check("C01")
def c01(ctx):
    ctx.technique = "TLC-evaluated reference semantics (spec/Semantics.tla) replayed into Compile/Run; VM refinement model-checked"
    cases = ctx.gen_cases("C01")
    ctx.replay("C01-exhaustive", cases, FIELDS["C01"])


RULES["C02"] = ("programs: spec/Scope.tla C02_Bodies (captures under or / loops / subroutines / recursion, "
                "back-references); inputs: all strings over the alphabet up to the tier's length; non-trivial = "
                "the specification expects at least one match")


@check("C02")
def c02(ctx):
    ctx.technique = "TLC-evaluated bindings of the successful path (spec/Semantics.tla) replayed into Compile/Run"
    cases = ctx.gen_cases("C02")
    ctx.replay("C02-exhaustive", cases, FIELDS["C02"])


RULES["C03"] = ("all match-producing cases of the C01/C02/C04 scopes with the full match record compared and the "
                "implementation's own output re-checked against the input bytes (MatchWF)")


@check("C03")
def c03(ctx):
    ctx.technique = "MatchWF invariant of the specification + full-record replay + oracle-free re-check"
    for fam in ("C01", "C02"):
        cases = ctx.gen_cases(fam)
        ctx.replay(fam + "-records", cases, FIELDS["C03"])


RULES["C04"] = ("bodies whose occurrences can overlap or abut x every amount clause with s,t,n in 0..4 (quick) "
                "x all strings over the alphabet up to length 6; non-trivial = all-matches sequence non-empty")


@check("C04")
def c04(ctx):
    ctx.technique = "Window(FindAll(all B), amount) from spec/Semantics.tla replayed into find and replace commands"
    cases = ctx.gen_cases("C04")
    ctx.replay("C04-windows", cases, FIELDS["C04"])
