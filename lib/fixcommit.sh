#!/bin/sh
# usage: fixcommit.sh <message-file-or-string>
# Runs the unedited baseline suite with the guard off and commits /repo only
# if all 125 tests pass.
out=$(/verif/lib/baseline.sh) || { echo "$out"; echo "NOT COMMITTED: suite failed"; exit 1; }
echo "$out" | tail -1 | grep -q "TOTAL PASS 125" || { echo "$out"; echo "NOT COMMITTED: count"; exit 1; }
cd /repo && git add -A && git commit -q -m "$1" && git log --oneline | head -1
