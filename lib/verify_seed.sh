#!/bin/bash
# usage: verify_seed.sh <dir with patch.diff + seeded_demo_test.go> 
# Confirms in a scratch worktree: the patch applies, the project builds, the existing
# tests pass with it, the demonstration fails with it and passes without it.
set -u
set -o pipefail
SRC=$1
WT=$(mktemp -d /tmp/wt_verify.XXXX)
rmdir $WT
git -C /repo worktree add --detach $WT HEAD >/dev/null 2>&1 || { echo "cannot create worktree"; exit 2; }
cleanup() { git -C /repo worktree remove --force $WT >/dev/null 2>&1; rm -rf $WT; }
trap cleanup EXIT
cd $WT
DEMO=$(ls $SRC/*_test.go $SRC/*_test.go.txt 2>/dev/null | head -1)
DEMODIR=libvore
[ -f $SRC/DEMODIR ] && DEMODIR=$(cat $SRC/DEMODIR)
DEMOBASE=$(basename $DEMO .txt)
run_demo() { cp $DEMO $WT/$DEMODIR/$DEMOBASE && (cd $WT/$DEMODIR && timeout 300 go test -count=1 -run "$(grep -o 'func Test[A-Za-z0-9_]*' $DEMO | sed 's/func //' | paste -sd'|')" . 2>&1 | tail -3); rc=$?; rm -f $WT/$DEMODIR/$DEMOBASE; return $rc; }
echo "== demo WITHOUT the change"
run_demo; without=$?
git apply $SRC/patch.diff || { echo "PATCH DOES NOT APPLY"; exit 1; }
echo "== build + existing tests WITH the change"
go build ./... || { echo "BUILD FAILS"; exit 1; }
tot=0; fail=0
for m in libvore libvore/algo libvore/ast libvore/ds libvore/files; do
  out=$(cd $WT/$m && timeout 600 go test -vet=off -count=1 -v ./... 2>&1); n=$(printf '%s\n' "$out" | grep -c '^--- PASS'); f=$(printf '%s\n' "$out" | grep -c '^--- FAIL'); tot=$((tot+n)); fail=$((fail+f))
done
echo "existing tests: pass=$tot fail=$fail"
echo "== demo WITH the change"
run_demo; with=$?
echo "RESULT without_rc=$without with_rc=$with existing_pass=$tot existing_fail=$fail"
if [ $without -eq 0 ] && [ $with -ne 0 ] && [ $tot -eq 125 ] && [ $fail -eq 0 ]; then echo "CONFIRMED"; exit 0; else echo "NOT CONFIRMED"; exit 1; fi
