#!/bin/sh
# The repository's own test suite with the verification guard OFF.
# Prints one line per module and the total number of passing tests; exits
# non-zero if any test fails.
REPO=${VERIF_REPO:-/repo}
rc=0
total=0
for m in . libvore libvore/algo libvore/ast libvore/bytecode libvore/ds libvore/engine libvore/files libvore/testutils; do
  out=$(cd "$REPO/$m" && GOPROXY=off GOSUMDB=off GOTOOLCHAIN=local go test -vet=off -count=1 -timeout 25m -v ./... 2>&1)
  st=$?
  n=$(printf '%s\n' "$out" | grep -c '^--- PASS')
  f=$(printf '%s\n' "$out" | grep -c '^--- FAIL')
  total=$((total + n))
  echo "$m: pass=$n fail=$f exit=$st"
  if [ $st -ne 0 ] || [ "$f" -ne 0 ]; then rc=1; printf '%s\n' "$out" | grep -A5 '^--- FAIL\|panic\|FAIL' | head -40; fi
done
echo "TOTAL PASS $total"
exit $rc
