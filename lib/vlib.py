"""Shared machinery of the vore verification checks: scratch space, TLC
runs, harness build, evidence, known findings."""
import json
import os
import re
import shutil
import subprocess
import sys
import tempfile
import time
from concurrent.futures import ThreadPoolExecutor

VERIF = os.path.dirname(os.path.dirname(os.path.abspath(__file__)))
SPEC = os.path.join(VERIF, "spec")
HARNESS_SRC = os.path.join(VERIF, "harness")
REPO = os.environ.get("VERIF_REPO", "/repo")
# build output per repository path, so that checks of two trees never share a binary
BUILD = os.path.join(VERIF, ".build") if REPO == "/repo" else os.path.join(VERIF, ".build", "alt_" + REPO.strip("/").replace("/", "_"))
TLA_CP = "/opt/veriftools/tla/tla2tools.jar:/opt/veriftools/tla/CommunityModules-deps.jar"
NCPU = min(16, os.cpu_count() or 4)

GOENV = dict(os.environ, GOWORK="off", GOFLAGS="-mod=mod", GOPROXY="off", GOSUMDB="off",
             GOTOOLCHAIN="local", CGO_ENABLED=os.environ.get("CGO_ENABLED", "1"))

MODULES = ["libvore", "libvore/algo", "libvore/ast", "libvore/bytecode", "libvore/ds",
           "libvore/engine", "libvore/files", "libvore/testutils"]


class Undecided(Exception):
    """The machinery could not decide (exit 2): never a violation."""


def log(*a):
    print(*a, file=sys.stderr, flush=True)


class Scratch:
    """A scratch directory outside /repo and /verif, removed on exit."""

    def __init__(self, tag):
        self.dir = tempfile.mkdtemp(prefix="verif.%s." % tag)

    def path(self, *p):
        return os.path.join(self.dir, *p)

    def sub(self, name):
        d = self.path(name)
        os.makedirs(d, exist_ok=True)
        return d

    def close(self):
        shutil.rmtree(self.dir, ignore_errors=True)

    def __enter__(self):
        return self

    def __exit__(self, *a):
        self.close()


# ------------------------------------------------------------------ harness
def gomod_text(repo):
    req = "\n".join("\tgithub.com/jmeaster30/vore/%s v0.0.0" % m for m in MODULES)
    rep = "\n".join("\tgithub.com/jmeaster30/vore/%s => %s/%s" % (m, repo, m) for m in MODULES)
    return "module vharness\n\ngo 1.19\n\nrequire (\n%s\n)\n\nreplace (\n%s\n)\n" % (req, rep)


def build_harness(race=False):
    """Build the harness against the repository's current working tree with
    the hooks enabled.  Returns the path of the binary."""
    os.makedirs(BUILD, exist_ok=True)
    out = os.path.join(BUILD, "vharness-race" if race else "vharness")
    modfile = os.path.join(BUILD, "harness.go.mod")
    with open(modfile, "w") as f:
        f.write(gomod_text(REPO))
    sumfile = os.path.join(BUILD, "harness.go.sum")
    open(sumfile, "a").close()
    cmd = ["go", "build", "-modfile", modfile, "-tags", "verif", "-o", out]
    if race:
        cmd.insert(2, "-race")
    if os.environ.get("VERIF_COVER"):
        # development aid: statement coverage of the implementation under the checks (GOCOVERDIR must be set)
        P = "github.com/jmeaster30/vore/libvore"
        cmd[2:2] = ["-cover", "-coverpkg=vharness,%s,%s/engine,%s/ast,%s/bytecode,%s/files,%s/ds" % (P, P, P, P, P, P)]
    cmd.append(".")
    p = subprocess.run(cmd, cwd=HARNESS_SRC, env=GOENV, capture_output=True, text=True)
    if p.returncode != 0:
        raise Undecided("harness build failed:\n" + p.stdout + p.stderr)
    return out


def build_vore_binary():
    """Build the vore CLI from the repository's working tree (inside its
    workspace)."""
    os.makedirs(BUILD, exist_ok=True)
    out = os.path.join(BUILD, "vore")
    env = dict(os.environ, GOPROXY="off", GOSUMDB="off", GOTOOLCHAIN="local")
    env.pop("GOFLAGS", None)
    p = subprocess.run(["go", "build", "-o", out, "."], cwd=REPO, env=env, capture_output=True, text=True)
    if p.returncode != 0:
        raise Undecided("vore build failed:\n" + p.stdout + p.stderr)
    return out


# ---------------------------------------------------------------------- TLC
TLC_STATS = re.compile(r"(\d+) states generated, (\d+) distinct states found")


def run_tlc(workdir, module, cfg_text, workers=1, timeout=600, heap="3g", extra_args=(), stack="512m",
            props=()):
    """Run TLC on spec/<module>.tla in workdir (a scratch copy of the spec
    directory).  Returns (stdout, stats)."""
    for f in os.listdir(SPEC):
        if f.endswith(".tla"):
            dst = os.path.join(workdir, f)
            if not os.path.exists(dst):
                shutil.copy(os.path.join(SPEC, f), dst)
    cfgname = module + "_%d.cfg" % (abs(hash(cfg_text)) % 100000)
    with open(os.path.join(workdir, cfgname), "w") as f:
        f.write(cfg_text)
    meta = tempfile.mkdtemp(prefix="md.", dir=workdir)
    cmd = ["java", "-XX:+UseParallelGC", "-XX:ParallelGCThreads=2", "-Xmx" + heap, "-Xss" + stack]
    cmd += ["-D" + p for p in props]
    cmd += ["-cp", TLA_CP, "tlc2.TLC", "-workers", str(workers), "-metadir", meta,
            "-config", cfgname, "-noGenerateSpecTE"] + list(extra_args) + [module + ".tla"]
    t0 = time.time()
    try:
        p = subprocess.run(cmd, cwd=workdir, capture_output=True, text=True, timeout=timeout)
    except subprocess.TimeoutExpired:
        raise Undecided("TLC timed out after %ds on %s" % (timeout, module))
    out = p.stdout
    stats = {"states": 0, "distinct": 0, "wall_s": time.time() - t0, "rc": p.returncode}
    m = None
    for m in TLC_STATS.finditer(out):
        pass
    if m:
        stats["states"] = int(m.group(1))
        stats["distinct"] = int(m.group(2))
    stats["ok"] = ("Model checking completed. No error has been found" in out) or \
                  ("Finished computing initial states" in out and p.returncode == 0)
    return out, stats


def tlc_json_lines(out):
    """The JSON documents TLC printed with PrintT(ToJson(..)): one quoted TLA+
    string per line."""
    res = []
    for line in out.splitlines():
        if line.startswith('"{') or line.startswith('"['):
            try:
                res.append(json.loads(line))  # unquote: yields the JSON text
            except Exception:
                raise Undecided("cannot unquote TLC output line: " + line[:200])
    return res


def tlc_error_excerpt(out, n=40):
    lines = [l for l in out.splitlines() if l and not l.startswith(("Parsing", "Semantic", "Linting"))]
    return "\n".join(lines[-n:])


def eval_cases(scratch, cases, nshards=NCPU, timeout=900, module="EvalCases", extra_const="", emit=None):
    """Shard `cases` (list of dicts) over JVMs running spec/EvalCases.tla;
    returns (list of expectation dicts, summed stats)."""
    nshards = max(1, min(nshards, len(cases)))
    shards = [[] for _ in range(nshards)]
    for k, c in enumerate(cases):
        shards[k % nshards].append(c)

    def one(k):
        d = scratch.sub("ev%d" % k)
        with open(os.path.join(d, "cases.ndjson"), "w") as f:
            for c in shards[k]:
                f.write(json.dumps(c, separators=(",", ":")) + "\n")
        cfg = ("SPECIFICATION Spec\nINVARIANT %s\nCONSTANT CaseFile = \"cases.ndjson\"\n%s\nCHECK_DEADLOCK FALSE\n"
               % (emit or ("EmitLit" if module == "EvalLit" else "Emit"), extra_const))
        out, st = run_tlc(d, module, cfg, workers=1, timeout=timeout, heap="2g")
        if not st["ok"]:
            raise Undecided("TLC failed on the evaluator spec:\n" + tlc_error_excerpt(out))
        docs = tlc_json_lines(out)
        if len(docs) != len(shards[k]):
            raise Undecided("TLC printed %d results for %d cases:\n%s" % (len(docs), len(shards[k]), tlc_error_excerpt(out)))
        return docs, st

    exps = []
    tot = {"states": 0, "distinct": 0, "jvms": nshards}
    with ThreadPoolExecutor(max_workers=nshards) as ex:
        for docs, st in ex.map(one, range(nshards)):
            exps.extend(docs)
            tot["states"] += st["states"]
            tot["distinct"] += st["distinct"]
    return exps, tot


# ------------------------------------------------------------ known findings
def load_known_findings():
    p = os.path.join(VERIF, "known_findings.json")
    if not os.path.exists(p):
        return []
    with open(p) as f:
        return json.load(f).get("findings", [])


def kf_match(kfs, prop, v):
    """An open finding matches a violation when property and signature agree
    (and, if the entry pins them, source and text)."""
    for k in kfs:
        if k.get("status") != "open" or k.get("property") != prop:
            continue
        if k.get("sig") != v.get("sig"):
            continue
        if "src" in k and k["src"] != v.get("src"):
            continue
        if "src_contains" in k and k["src_contains"] not in (v.get("src") or ""):
            continue
        return k
    return None


# ------------------------------------------------------------------ evidence
def write_evidence(prop, tier, seed, level, coverage, wall_s, violations, assumptions=()):
    os.makedirs(os.path.join(VERIF, "evidence"), exist_ok=True)
    ev = {
        "property_id": prop, "tier": tier, "seed": int(seed), "level": level,
        "coverage": coverage, "assumptions": list(assumptions),
        "wall_s": round(wall_s, 2), "violations": int(violations),
    }
    tmp = os.path.join(VERIF, "evidence", prop + ".json.tmp")
    with open(tmp, "w") as f:
        json.dump(ev, f, indent=1, sort_keys=True)
    os.replace(tmp, os.path.join(VERIF, "evidence", prop + ".json"))
    return ev


def run_replay(harness, scratch, prop, family, cases, exps, fields, mode="string", want_ast=True,
               reject_violation=False, workers=NCPU, timeout=30, extra=()):
    d = scratch.sub("rp_" + family)
    cp = os.path.join(d, "cases.ndjson")
    ep = os.path.join(d, "expect.ndjson")
    rp = os.path.join(d, "report.json")
    with open(cp, "w") as f:
        for c in cases:
            f.write(json.dumps(c, separators=(",", ":")) + "\n")
    with open(ep, "w") as f:
        for e in exps:
            f.write(e if isinstance(e, str) else json.dumps(e, separators=(",", ":")))
            f.write("\n")
    cmd = [harness, "replay", "-property", prop, "-family", family, "-cases", cp, "-expect", ep,
           "-fields", ",".join(fields), "-report", rp, "-replaydir", os.path.join(VERIF, "replays", prop),
           "-workers", str(workers), "-mode", mode, "-timeout", str(timeout)]
    cmd.append("-ast=%s" % ("true" if want_ast else "false"))
    if reject_violation:
        cmd.append("-reject-violation")
    cmd += list(extra)
    p = subprocess.run(cmd, capture_output=True, text=True)
    if p.returncode != 0 or not os.path.exists(rp):
        raise Undecided("harness replay failed (%d):\n%s%s" % (p.returncode, p.stdout[-2000:], p.stderr[-2000:]))
    with open(rp) as f:
        return json.load(f)
