#!/usr/bin/env python3
"""Run checks against behaviour-preserving refactorings under /verif/seeded/neutral/<id>/:
the expected outcome is exit 0 for every listed check (no alarm on code where the
property holds).  usage: lib/neutral.py [id ...]"""
import json
import os
import subprocess
import sys
import time

VERIF = os.path.dirname(os.path.dirname(os.path.abspath(__file__)))
REPO = "/repo"
ND = os.path.join(VERIF, "seeded", "neutral")


def sh(cmd, **kw):
    return subprocess.run(cmd, capture_output=True, text=True, **kw)


def main():
    ids = sys.argv[1:] or sorted(d for d in os.listdir(ND) if os.path.isdir(os.path.join(ND, d)))
    respath = os.path.join(ND, "results.json")
    results = json.load(open(respath)) if os.path.exists(respath) else {}
    for nid in ids:
        d = os.path.join(ND, nid)
        meta = json.load(open(os.path.join(d, "meta.json")))
        if sh(["git", "-C", REPO, "status", "--porcelain"]).stdout.strip():
            print("refusing: /repo is not clean")
            return 2
        a = sh(["git", "-C", REPO, "apply", os.path.join(d, "patch.diff")])
        if a.returncode != 0:
            results[nid] = {"error": "patch does not apply: " + a.stderr[:300]}
            continue
        try:
            runs = {}
            for prop in meta["checks"]:
                t0 = time.time()
                p = sh([os.path.join(VERIF, "check"), prop, "--tier", "quick"], cwd=VERIF, env=dict(os.environ, VERIF_SEED="1"))
                detail = [l.strip() for l in p.stderr.splitlines() if l.strip().startswith("[") or "UNDECIDED" in l]
                runs[prop] = {"exit": p.returncode, "first": (detail[0][:300] if detail else ""), "wall_s": round(time.time() - t0, 1)}
                print(nid, prop, "exit", p.returncode, detail[0][:160] if detail else "", flush=True)
            results[nid] = {"what": meta.get("what", ""), "runs": runs, "quiet": all(r["exit"] == 0 for r in runs.values())}
        finally:
            sh(["git", "-C", REPO, "checkout", "--", "."])
            sh(["git", "-C", REPO, "clean", "-fdq"])
    json.dump(results, open(respath, "w"), indent=1, sort_keys=True)
    with open(os.path.join(ND, "RESULTS.md"), "w") as f:
        f.write("# Behaviour-preserving refactorings: the checks must stay quiet\n\n| refactoring | what | checks run: outcome |\n|---|---|---|\n")
        for nid in sorted(results):
            r = results[nid]
            if "error" in r:
                f.write("| %s | | %s |\n" % (nid, r["error"]))
                continue
            outs = "; ".join("%s: %s" % (p, "quiet" if x["exit"] == 0 else ("ALARM" if x["exit"] == 1 else "undecided")) for p, x in r["runs"].items())
            f.write("| %s | %s | %s |\n" % (nid, r["what"].replace("|", "/")[:200], outs))
    return 0


if __name__ == "__main__":
    sys.exit(main())
