#!/usr/bin/env python3
"""Run the checks against the seeded changes under /verif/seeded/<id>/.

usage: lib/seeded.py [id ...]      (default: all)
For each seeded change: /repo must be clean; apply patch.diff (git apply), run the
quick check of the property it breaks (meta.json "property", plus "also"), undo the
patch (git checkout -- .), record exit status and the first VIOLATION line.
Writes seeded/RESULTS.md and seeded/results.json.  Never commits anything in /repo.
"""
import json
import os
import subprocess
import sys
import time

VERIF = os.path.dirname(os.path.dirname(os.path.abspath(__file__)))
REPO = "/repo"
SEEDED = os.path.join(VERIF, "seeded")


def sh(cmd, **kw):
    return subprocess.run(cmd, capture_output=True, text=True, **kw)


def repo_clean():
    return sh(["git", "-C", REPO, "status", "--porcelain"]).stdout.strip() == ""


def outside(sid):
    try:
        m = json.load(open(os.path.join(SEEDED, sid, "meta.json")))
    except Exception:
        return ""
    return m.get("outside_property") or m.get("outside_technique") or ""


def main():
    ids = sys.argv[1:] or sorted(d for d in os.listdir(SEEDED) if os.path.isfile(os.path.join(SEEDED, d, "meta.json")))
    respath = os.path.join(SEEDED, "results.json")
    results = json.load(open(respath)) if os.path.exists(respath) else {}
    for sid in ids:
        d = os.path.join(SEEDED, sid)
        meta = json.load(open(os.path.join(d, "meta.json")))
        if not repo_clean():
            print("refusing: /repo is not clean")
            return 2
        a = sh(["git", "-C", REPO, "apply", os.path.join(d, "patch.diff")])
        if a.returncode != 0:
            results[sid] = {"error": "patch does not apply: " + a.stderr[:300]}
            continue
        try:
            runs = {}
            for prop in [meta["property"]] + meta.get("also", []):
                t0 = time.time()
                p = sh([os.path.join(VERIF, "check"), prop, "--tier", meta.get("tier", "quick")], cwd=VERIF,
                       env=dict(os.environ, VERIF_SEED="1"))
                viol = [l for l in p.stdout.splitlines() if l.startswith("VIOLATION")]
                detail = [l.strip() for l in p.stderr.splitlines() if l.strip().startswith("[")]
                runs[prop] = {"exit": p.returncode, "violations": len(viol), "first": (detail[0][:300] if detail else ""),
                              "wall_s": round(time.time() - t0, 1)}
                print(sid, prop, "exit", p.returncode, "violations", len(viol), flush=True)
            results[sid] = {"property": meta["property"], "needs": meta.get("needs", ""), "runs": runs,
                            "caught": any(r["exit"] == 1 for r in runs.values())}
        finally:
            sh(["git", "-C", REPO, "checkout", "--", "."])
            sh(["git", "-C", REPO, "clean", "-fdq"])
        json.dump(results, open(respath, "w"), indent=1, sort_keys=True)      # after every change: a long run keeps what it has
    json.dump(results, open(respath, "w"), indent=1, sort_keys=True)
    with open(os.path.join(SEEDED, "RESULTS.md"), "w") as f:
        counted = [s for s in results if "runs" in results[s] and not outside(s)]
        primary = [s for s in counted if results[s]["runs"].get(results[s]["property"], {}).get("exit") == 1]
        f.write("# Seeded changes: which checks catch which\n\n%d changes counted, %d caught by the quick check of the property they break "
                "(%d more are kept for the record but lie outside a property's quantifier or outside what the technique can express; see their meta.json).\n\n"
                "| seeded change | breaks | needs, to manifest | check: outcome |\n|---|---|---|---|\n"
                % (len(counted), len(primary), len([s for s in results if outside(s)])))
        for sid in sorted(results):
            r = results[sid]
            if "error" in r:
                f.write("| %s | | | %s |\n" % (sid, r["error"]))
                continue
            outs = "; ".join("%s: %s (%d violations, %ss)" % (p, "CAUGHT" if x["exit"] == 1 else ("undecided" if x["exit"] == 2 else "missed"),
                                                              x["violations"], x["wall_s"]) for p, x in r["runs"].items())
            if outside(sid):
                outs = "NOT COUNTED (" + outside(sid)[:120] + "...) " + outs
            f.write("| %s | %s | %s | %s |\n" % (sid, r["property"], r["needs"].replace("|", "/").replace("\n", " ")[:160], outs))
    return 0


if __name__ == "__main__":
    sys.exit(main())
