#!/usr/bin/env python3
"""Validate MANIFEST.json and evidence files against the given schemas
(uses the tooling venv's jsonschema: run with python3-vt)."""
import glob
import json
import sys

import jsonschema

ok = True
m = json.load(open('/verif/MANIFEST.json'))
jsonschema.validate(m, json.load(open('/root/.vp/MANIFEST.schema.json')))
es = json.load(open('/root/.vp/EVIDENCE.schema.json'))
for f in sorted(glob.glob('/verif/evidence/*.json')):
    try:
        jsonschema.validate(json.load(open(f)), es)
    except Exception as e:
        ok = False
        print("INVALID", f, str(e)[:300])
claimed = {c['property_id'] for c in m['checks']}
na = {c['property_id'] for c in m.get('not_applicable', [])}
allp = {json.loads(l)['id'] for l in open('/verif/properties.jsonl')}
print("claimed", sorted(claimed))
print("not_applicable", sorted(na))
print("unaccounted", sorted(allp - claimed - na))
print("valid" if ok else "INVALID")
sys.exit(0 if ok else 1)
