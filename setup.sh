#!/bin/sh
# Build the framework from files on disk only (offline).
set -e
cd "$(dirname "$0")"
command -v java >/dev/null
command -v go >/dev/null
python3 - <<'PY'
import sys
sys.path.insert(0, "lib")
import vlib
print(vlib.build_harness())
PY
