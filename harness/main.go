package main

import (
	"fmt"
	"os"
)

func main() {
	if len(os.Args) < 2 {
		fmt.Fprintln(os.Stderr, "usage: vharness <worker|replay|...>")
		os.Exit(2)
	}
	switch os.Args[1] {
	case "worker":
		workerMain()
	case "replay":
		os.Exit(replayMain(os.Args[2:]))
	default:
		if f, ok := subcommands[os.Args[1]]; ok {
			os.Exit(f(os.Args[2:]))
		}
		fmt.Fprintln(os.Stderr, "unknown subcommand", os.Args[1])
		os.Exit(2)
	}
}

var subcommands = map[string]func([]string) int{}
