package main

// C19: many goroutines compile sources and run compiled programs at the
// same time (binary built with -race); every call must return what it
// returns alone; the accesses of the shared regex group counter (hook H3)
// are recorded for validation against spec/SessionTrace.tla.
// C13 (second half): histories of repeated Compile/Run on live objects.

import (
	"bufio"
	"encoding/json"
	"flag"
	"fmt"
	"math/rand"
	"os"
	"runtime"
	"strconv"
	"strings"
	"sync"
	"time"

	"github.com/jmeaster30/vore/libvore"
	"github.com/jmeaster30/vore/libvore/ast"
	"github.com/jmeaster30/vore/libvore/engine"
)

var concSources = []string{
	"find all @/(a)(b)/",
	"find all @/((a)(b))c?/ 'x' or 'a'",
	"find all @/(?<n>a)|(b)/",
	"find all 'ab' = v maybe v",
	"set p to pattern 'a' or 'b' find all p p find all at least 1 p",
	"set f to transform return match + matchNumber end replace all @/(b)(c)?/ with f '-'",
	"find all at least 1 (in 'a', 'b') at most 2 'c' fewest",
	// predicates (their own variables, loops) and transforms with scratch names: evaluated many times per run
	"set p to pattern at least 1 (in 'a', 'b', 'c') begin set n to matchLength if n > 2 then return false end set t to match + 'x' return t == match + 'x' end find all p",
	"set q to pattern any begin set seen to seen + match return seen == match end find all q q replace all q with 'z'",
	"set g to transform set i to 0 set s to '' loop set i to i + 1 if i > matchLength then break end set s to s + i end return s + match end replace all at least 1 'b' or 'c' with g",
	"find all at least 1 (any = c) named lp 'b'",
}
var concTexts = []string{"ab", "abcab abx", "bcabcb a", ""}

func goid() int {
	var buf [64]byte
	n := runtime.Stack(buf[:], false)
	f := strings.Fields(string(buf[:n]))
	if len(f) >= 2 {
		id, _ := strconv.Atoi(f[1])
		return id
	}
	return -1
}

type concObs struct {
	ast  string
	runs []string
}

func observe(src string) (o concObs, err string) {
	defer func() {
		if r := recover(); r != nil {
			err = fmt.Sprint("panic: ", r)
		}
	}()
	a, perr := ast.ParseReader(strings.NewReader(src))
	if perr != nil {
		return o, "parse error: " + perr.Error()
	}
	cmds, e := projAst(a)
	if e != nil {
		return o, e.Error()
	}
	o.ast = canon(anyList(cmds))
	v, cerr := libvore.Compile(src)
	if cerr != nil {
		return o, "compile error: " + cerr.Error()
	}
	for _, t := range concTexts {
		b, _ := json.Marshal(projMatches(v.Run(t)))
		o.runs = append(o.runs, string(b))
	}
	return o, ""
}

func runsOf(v *libvore.Vore) (out []string, err string) {
	defer func() {
		if r := recover(); r != nil {
			err = fmt.Sprint("panic: ", r)
		}
	}()
	for _, t := range concTexts {
		b, _ := json.Marshal(projMatches(v.Run(t)))
		out = append(out, string(b))
	}
	return
}

func concurrencyMain(args []string) int {
	fs := flag.NewFlagSet("concurrency", flag.ExitOnError)
	seed := fs.Int64("seed", 1, "")
	goroutines := fs.Int("goroutines", 8, "")
	iters := fs.Int("iters", 40, "")
	tracePath := fs.String("trace", "", "H3 trace output (ndjson)")
	reportPath := fs.String("report", "", "")
	fs.Parse(args)
	engine.VerifStepHook = nil // the step observer of the harness is not goroutine-safe
	// sequential baseline
	base := make([]concObs, len(concSources))
	shared := make([]*libvore.Vore, len(concSources))
	for i, s := range concSources {
		o, e := observe(s)
		if e != "" {
			fmt.Fprintln(os.Stderr, "concurrency: baseline failed for", s, e)
			return 2
		}
		base[i] = o
		shared[i], _ = libvore.Compile(s)
	}
	// record the counter accesses; yield inside the hook to provoke interleavings
	var evmu sync.Mutex
	var events []Node
	var seq int
	ast.VerifCgnHook = func(kind string, value int) {
		g := goid()
		evmu.Lock()
		seq++
		events = append(events, Node{"g": g, "k": kind, "v": value, "seq": seq})
		evmu.Unlock()
		runtime.Gosched()
		if value%2 == 1 {
			time.Sleep(20 * time.Microsecond)
		}
	}
	var mu sync.Mutex
	var problems []string
	calls := 0
	var wg sync.WaitGroup
	for g := 0; g < *goroutines; g++ {
		wg.Add(1)
		go func(g int) {
			defer wg.Done()
			rnd := rand.New(rand.NewSource(*seed*1000 + int64(g)))
			for k := 0; k < *iters; k++ {
				i := rnd.Intn(len(concSources))
				var got concObs
				var e string
				what := ""
				switch rnd.Intn(3) {
				case 0: // compile (and run the private program)
					what = "Compile+Run"
					got, e = observe(concSources[i])
				case 1: // run a shared program
					what = "Run(shared)"
					got.ast = base[i].ast
					got.runs, e = runsOf(shared[i])
				default: // compile only, compare the tree
					what = "Compile"
					got, e = observe(concSources[i])
				}
				mu.Lock()
				calls++
				if e != "" {
					problems = append(problems, fmt.Sprintf("%s of %q: %s", what, concSources[i], e))
				} else if got.ast != base[i].ast {
					problems = append(problems, fmt.Sprintf("%s of %q: syntax tree differs from the sequential one (group names)", what, concSources[i]))
				} else if strings.Join(got.runs, "|") != strings.Join(base[i].runs, "|") {
					problems = append(problems, fmt.Sprintf("%s of %q: results differ from the sequential ones", what, concSources[i]))
				}
				mu.Unlock()
			}
		}(g)
	}
	wg.Wait()
	ast.VerifCgnHook = nil
	if *tracePath != "" {
		f, _ := os.Create(*tracePath)
		w := bufio.NewWriter(f)
		enc := json.NewEncoder(w)
		for _, e := range events {
			enc.Encode(e)
		}
		w.Flush()
		f.Close()
	}
	if len(problems) > 20 {
		problems = problems[:20]
	}
	b, _ := json.MarshalIndent(Node{"calls": calls, "events": len(events), "problems": problems, "goroutines": *goroutines}, "", " ")
	os.WriteFile(*reportPath, b, 0o644)
	return 0
}

// --------------------------------------------------------------- sessions

// session histories: a sequence of steps {"op":"compile","src":k} /
// {"op":"run","obj":j,"text":t}; obj indexes the compiles so far
func sessionMain(args []string) int {
	fs := flag.NewFlagSet("session", flag.ExitOnError)
	in := fs.String("in", "", "ndjson: {id, srcs:[..], texts:[[..]], steps:[..], expect:{\"s,t\": matches-json}}")
	reportPath := fs.String("report", "", "")
	fs.Parse(args)
	f, err := os.Open(*in)
	if err != nil {
		fmt.Fprintln(os.Stderr, err)
		return 2
	}
	defer f.Close()
	rep := &Report{Property: "C13", Family: "sessions", OtherDiffs: map[string]int{}, Violations: []Violation{}, Samples: []any{}, Undecided: []string{}}
	sc := bufio.NewScanner(f)
	sc.Buffer(make([]byte, 1<<20), 64<<20)
	for sc.Scan() {
		var h Node
		if json.Unmarshal(sc.Bytes(), &h) != nil {
			continue
		}
		srcs, _ := h["srcs"].([]any)
		texts, _ := h["texts"].([]any)
		expect := nnode(h, "expect")
		var objs []*libvore.Vore
		var objSrc []int
		rep.Programs++
		bad := ""
		func() {
			defer func() {
				if r := recover(); r != nil {
					bad = fmt.Sprint("panic: ", r)
				}
			}()
			for si, st := range nlist(h, "steps") {
				switch nstr(st, "op") {
				case "compile":
					k := nint(st, "src")
					v, e := libvore.Compile(srcs[k].(string))
					if k == nint(h, "failsrc") && h["failsrc"] != nil {
						if e == nil {
							bad = fmt.Sprintf("step %d: the malformed source was accepted", si)
							return
						}
						continue
					}
					if e != nil {
						bad = fmt.Sprintf("step %d: compile error %v (the same source compiles when compiled alone)", si, e)
						return
					}
					objs = append(objs, v)
					objSrc = append(objSrc, k)
				case "run":
					j, t := nint(st, "obj"), nint(st, "text")
					if j >= len(objs) {
						continue
					}
					ms := projMatches(objs[j].Run(string(anyBytes(texts[t]))))
					rep.Evaluations++
					key := fmt.Sprintf("%d,%d", objSrc[j], t)
					want, _ := expect[key].([]any)
					if len(want) > 0 {
						rep.Nontrivial++
					}
					if len(want) != len(ms) {
						bad = fmt.Sprintf("step %d: Run(obj %d = src %d, text %d) returned %d matches, the specification says %d", si, j, objSrc[j], t, len(ms), len(want))
						return
					}
					for i := range ms {
						w, _ := want[i].(map[string]any)
						if nint(w, "s") != ms[i].S || nint(w, "e") != ms[i].E || nint(w, "n") != ms[i].N || !varsEqual(expVarsMap(w["vars"]), ms[i].Vars) {
							bad = fmt.Sprintf("step %d: Run(obj %d = src %d, text %d): match %d differs from the specification", si, j, objSrc[j], t, i)
							return
						}
					}
				}
			}
		}()
		if bad != "" {
			rep.NViolations++
			if len(rep.Violations) < 10 {
				rep.Violations = append(rep.Violations, Violation{Property: "C13", Kind: "history", Sig: "history", Detail: bad, Src: fmt.Sprint(h["steps"]), Case: h})
			}
		}
		if len(rep.Samples) < 2 && rep.Programs%97 == 1 {
			rep.Samples = append(rep.Samples, Node{"steps": h["steps"], "srcs": srcs})
		}
	}
	b, _ := json.MarshalIndent(rep, "", " ")
	os.WriteFile(*reportPath, b, 0o644)
	return 0
}

func init() {
	subcommands["concurrency"] = concurrencyMain
	subcommands["session"] = sessionMain
}
