package main

// C17: both JSON renderings of a result list succeed, parse, are equal as
// documents, and decode to the match data (the specification's document
// where the program is modelled, and always the in-memory matches).

import (
	"bufio"
	"encoding/json"
	"flag"
	"fmt"
	"os"
	"path/filepath"
	"strings"
	"sync"
	"time"
	"unicode/utf8"

	"github.com/jmeaster30/vore/libvore/engine"
)

func jsonSafe(f func() string) (s string, pan string) {
	defer func() {
		if r := recover(); r != nil {
			pan = fmt.Sprint(r)
		}
	}()
	s = f()
	return
}

// expected document of the in-memory matches (mirror of spec/MatchDoc.tla)
func docOfMatches(ms engine.Matches) []any {
	out := make([]any, 0, len(ms))
	for _, m := range ms {
		d := map[string]any{
			"filename": m.Filename, "matchNumber": float64(m.MatchNumber),
			"offset": map[string]any{"start": float64(m.Offset.Start), "end": float64(m.Offset.End)},
			"line":   map[string]any{"start": float64(m.Line.Start), "end": float64(m.Line.End)},
			"column": map[string]any{"start": float64(m.Column.Start), "end": float64(m.Column.End)},
			"value":  m.Value, "variables": m.Variables.ToGo(),
		}
		if m.Replacement.HasValue() {
			d["replacement"] = m.Replacement.GetValue()
		}
		out = append(out, d)
	}
	return out
}

func allValidUTF8(v any) bool {
	switch x := v.(type) {
	case string:
		return utf8.ValidString(x)
	case map[string]string:
		for k, e := range x {
			if !utf8.ValidString(k) || !utf8.ValidString(e) {
				return false
			}
		}
	case map[string]any:
		for k, e := range x {
			if !utf8.ValidString(k) || !allValidUTF8(e) {
				return false
			}
		}
	case []any:
		for _, e := range x {
			if !allValidUTF8(e) {
				return false
			}
		}
	}
	return true
}

// op "json": compile, run each text, render both ways
func handleJSON(req *Req) *Resp {
	resp := &Resp{Out: Node{}}
	v, err, pan, stack := compileSafe(req.Src)
	if pan != "" {
		resp.CPanic, resp.CStack = pan, stack
		return resp
	}
	if err != nil {
		resp.CErr = err.Error()
		return resp
	}
	var runs []any
	for _, t := range req.Texts {
		r := Node{}
		ms, p, _, _, _ := runSafe(v, toText(t), 0)
		if p != "" {
			r["panic"] = p
			runs = append(runs, r)
			continue
		}
		cj, cp := jsonSafe(ms.Json)
		fj, fp := jsonSafe(ms.FormattedJson)
		if cp != "" || fp != "" {
			r["jsonpanic"] = "Json: " + cp + " FormattedJson: " + fp
			runs = append(runs, r)
			continue
		}
		var cd, fd any
		ce := json.Unmarshal([]byte(cj), &cd)
		fe := json.Unmarshal([]byte(fj), &fd)
		if ce != nil || fe != nil {
			r["invalid"] = fmt.Sprint(ce, fe)
			runs = append(runs, r)
			continue
		}
		// the document of a result list is an array, also when the list is empty (`null` is not a list)
		if _, isList := cd.([]any); !isList {
			r["invalid"] = "Json() of a result list is not an array: " + cj
			runs = append(runs, r)
			continue
		}
		if _, isList := fd.([]any); !isList {
			r["invalid"] = "FormattedJson() of a result list is not an array: " + fj
			runs = append(runs, r)
			continue
		}
		r["equal"] = canon(cd) == canon(fd)
		want := docOfMatches(ms)
		r["valid_utf8"] = allValidUTF8(any(want))
		r["matches_memory"] = canon(cd) == canon(normalizeJSON(want))
		// the same text as a file inside a directory argument written with a trailing slash: the file name
		// (as the engine composes it) must be carried unchanged too
		if len(ms) > 0 && len(runs) < 3 {
			if dir, e := os.MkdirTemp("", "verif.json."); e == nil {
				os.WriteFile(filepath.Join(dir, "a b%.txt"), []byte(toText(t)), 0o644)
				fms, fp, _ := runFilesSafe(v, []string{dir + "/"}, engine.NOTHING)
				if fp == "" {
					fj, p1 := jsonSafe(fms.Json)
					var fdoc any
					if p1 != "" || json.Unmarshal([]byte(fj), &fdoc) != nil || canon(fdoc) != canon(normalizeJSON(docOfMatches(fms))) {
						r["matches_memory"] = false
					}
				}
				os.RemoveAll(dir)
			}
		}
		r["doc"] = cd
		r["n"] = len(ms)
		// single-match renderings too
		if len(ms) > 0 {
			mj, mp := jsonSafe(ms[0].Json)
			mf, mfp := jsonSafe(ms[0].FormattedJson)
			var a, b any
			if mp != "" || mfp != "" || json.Unmarshal([]byte(mj), &a) != nil || json.Unmarshal([]byte(mf), &b) != nil || canon(a) != canon(b) || canon(a) != canon(normalizeJSON(want[0])) {
				r["single_bad"] = true
			}
		}
		runs = append(runs, r)
	}
	resp.Out["runs"] = runs
	return resp
}

// spec documents carry strings as byte arrays; convert for comparison
func specDocToJSON(v any, key string) any {
	switch x := v.(type) {
	case map[string]any:
		out := map[string]any{}
		for k, e := range x {
			out[k] = specDocToJSON(e, k)
		}
		return out
	case []any:
		if key == "value" || key == "replacement" || key == "filename" || key == "__var" {
			return string(anyBytes(x))
		}
		if key == "variables" && len(x) == 0 {
			return map[string]any{}
		}
		out := make([]any, len(x))
		for i, e := range x {
			out[i] = specDocToJSON(e, "")
		}
		return out
	}
	return v
}

func fixVars(d any) any {
	// variables: name -> byte array  ==> name -> string
	arr, ok := d.([]any)
	if !ok {
		return d
	}
	for _, m := range arr {
		mm, ok := m.(map[string]any)
		if !ok {
			continue
		}
		switch vv := mm["variables"].(type) {
		case map[string]any:
			for k, e := range vv {
				if a, ok := e.([]any); ok {
					vv[k] = string(anyBytes(a))
				}
			}
		case []any:
			mm["variables"] = map[string]any{}
		}
	}
	return d
}

type docExp struct {
	ID int `json:"id"`
	R  []struct {
		T   []int `json:"t"`
		Doc any   `json:"doc"`
	} `json:"r"`
}

func jsonCheckMain(args []string) int {
	fs := flag.NewFlagSet("jsoncheck", flag.ExitOnError)
	casesPath := fs.String("cases", "", "")
	expPath := fs.String("expect", "", "expected documents from TLC (optional per case: cases without expectation are checked relationally)")
	reportPath := fs.String("report", "", "")
	replayDir := fs.String("replaydir", "", "")
	workers := fs.Int("workers", 16, "")
	fs.Parse(args)
	start := time.Now()
	cases, order, err := loadCases(*casesPath)
	if err != nil {
		fmt.Fprintln(os.Stderr, err)
		return 2
	}
	exps := map[int]docExp{}
	if *expPath != "" {
		f, err := os.Open(*expPath)
		if err != nil {
			fmt.Fprintln(os.Stderr, err)
			return 2
		}
		sc := bufio.NewScanner(f)
		sc.Buffer(make([]byte, 1<<20), 256<<20)
		for sc.Scan() {
			var e docExp
			if json.Unmarshal(sc.Bytes(), &e) == nil {
				exps[e.ID] = e
			}
		}
		f.Close()
	}
	rep := &Report{Property: "C17", Family: "json", OtherDiffs: map[string]int{}, Violations: []Violation{}, Samples: []any{}, Undecided: []string{}}
	var mu sync.Mutex
	pool := NewPool(*workers, 30*time.Second)
	defer pool.Close()
	perSig := map[string]int{}
	add := func(kind, detail, src string, text []int, c Node, got any) {
		mu.Lock()
		defer mu.Unlock()
		rep.NViolations++
		perSig[kind]++
		if perSig[kind] <= 8 {
			v := Violation{Property: "C17", Kind: kind, Sig: kind, Detail: detail, Src: src, Text: text, Case: c, Got: got}
			if *replayDir != "" {
				os.MkdirAll(*replayDir, 0o755)
				p := filepath.Join(*replayDir, hashOf([]any{src, text, kind})+".json")
				b, _ := json.MarshalIndent(v, "", " ")
				os.WriteFile(p, b, 0o644)
				v.Replay = p
			}
			rep.Violations = append(rep.Violations, v)
		}
	}
	var wg sync.WaitGroup
	sem := make(chan struct{}, *workers)
	for _, id := range order {
		c := cases[id]
		wg.Add(1)
		sem <- struct{}{}
		go func(c Node) {
			defer wg.Done()
			defer func() { <-sem }()
			src := renderProgram(c)
			var texts [][]int
			e, hasExp := exps[nint(c, "id")]
			if hasExp {
				for _, r := range e.R {
					texts = append(texts, r.T)
				}
			} else if arr, ok := c["texts"].([]any); ok {
				for _, t := range arr {
					texts = append(texts, bytesJSON(anyBytes(t)))
				}
			}
			resp := pool.Do(&Req{Op: "json", Src: src, Texts: texts})
			mu.Lock()
			rep.Programs++
			mu.Unlock()
			if resp.Crash != "" || resp.CPanic != "" || resp.CErr != "" {
				add("setup", "could not run: "+resp.Crash+resp.CPanic+resp.CErr, src, nil, c, nil)
				return
			}
			runs, _ := resp.Out["runs"].([]any)
			for i, rr := range runs {
				r, _ := rr.(map[string]any)
				mu.Lock()
				rep.Evaluations++
				if nint(r, "n") > 0 {
					rep.Nontrivial++
				}
				if len(rep.Samples) < 3 && nint(r, "n") > 0 && rep.Evaluations%37 == 1 {
					rep.Samples = append(rep.Samples, Node{"src": src, "text": texts[i], "doc": r["doc"]})
				}
				mu.Unlock()
				switch {
				case r["panic"] != nil:
					add("panic", "Run panicked: "+fmt.Sprint(r["panic"]), src, texts[i], c, nil)
				case r["jsonpanic"] != nil:
					add("jsonpanic", "rendering panicked: "+fmt.Sprint(r["jsonpanic"]), src, texts[i], c, nil)
				case r["invalid"] != nil:
					add("invalid", "a rendering is not valid JSON: "+fmt.Sprint(r["invalid"]), src, texts[i], c, nil)
				case !nbool(r, "equal"):
					add("differ", "compact and formatted renderings are different documents", src, texts[i], c, r["doc"])
				case nbool(r, "valid_utf8") && !nbool(r, "matches_memory"):
					add("memory", "the document does not carry the in-memory match data", src, texts[i], c, r["doc"])
				case r["single_bad"] != nil:
					add("single", "Match.Json/FormattedJson of one match is wrong", src, texts[i], c, r["doc"])
				default:
					// the specification counts columns in bytes (the property's column claim is ASCII)
					if hasExp && i < len(e.R) && nbool(r, "valid_utf8") && isASCII(texts[i]) {
						want := fixVars(specDocToJSON(e.R[i].Doc, ""))
						if canon(r["doc"]) != canon(want) {
							add("spec", "the document differs from MatchDoc of the specification's matches: want "+canon(want)[:min(300, len(canon(want)))], src, texts[i], c, r["doc"])
						}
					}
				}
			}
		}(c)
	}
	wg.Wait()
	rep.WallS = time.Since(start).Seconds()
	b, _ := json.MarshalIndent(rep, "", " ")
	os.WriteFile(*reportPath, b, 0o644)
	_ = strings.TrimSpace
	return 0
}

func init() {
	opHandlers["json"] = handleJSON
	subcommands["jsoncheck"] = jsonCheckMain
}
