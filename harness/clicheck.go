package main

// C18: every flag configuration of spec/Cli.tla on the built binary, in a
// fresh temporary directory; exit status, standard output, output files
// and the directory afterwards compared with the model's final state and
// with the library's result for the same program and files.

import (
	"bufio"
	"bytes"
	"encoding/json"
	"flag"
	"fmt"
	"io"
	"os"
	"os/exec"
	"path/filepath"
	"sort"
	"strings"
	"sync"
	"time"

	"github.com/jmeaster30/vore/libvore"
	"github.com/jmeaster30/vore/libvore/files"
)

type cliExp struct {
	Cfg     Node     `json:"cfg"`
	Exit    int      `json:"exit"`
	Printed string   `json:"printed"`
	Wrote   []string `json:"wrote"`
	Applied string   `json:"applied"`
	Msg     bool     `json:"msg"`
}

var cliPrograms = map[string]string{
	"find":     "find all 'ab'",
	"findnone": "find all 'QQQ'",
	"replace":  "replace all 'ab' with 'X%s<&' matchNumber",
	"failing":  "find all 'ab",
	"multi":    "find all 'ab' find all 'x' or 'z' or '%d' or '\\\\' or '\"'",
}

// texts, replacements and one file name carry characters that matter to printing and serialising: % " \ < & tab, non-ASCII
var cliFiles = map[string]string{"f1.txt": "ab ab\nxx ab 100%d \"q\" \\ \u00e9\t<&>", "f2.txt": "zz\nab", "g.dat": "ab", "p%c 50%.txt": "ab%s\n%"}

func seedDir(dir string) {
	for n, c := range cliFiles {
		os.WriteFile(filepath.Join(dir, n), []byte(c), 0o644)
	}
}

func readDir(dir string) map[string]string {
	out := map[string]string{}
	entries, _ := os.ReadDir(dir)
	for _, e := range entries {
		b, _ := os.ReadFile(filepath.Join(dir, e.Name()))
		out[e.Name()] = string(b)
	}
	return out
}

func oneJSONDoc(b []byte) (any, error) {
	dec := json.NewDecoder(bytes.NewReader(b))
	var v any
	if err := dec.Decode(&v); err != nil {
		return nil, err
	}
	var extra any
	if err := dec.Decode(&extra); err != io.EOF {
		return nil, fmt.Errorf("more than one document / trailing data")
	}
	return v, nil
}

// the library's result for the same program and files, run in directory B
func libraryRun(prog, glob, mode, dirB, dirA string) (doc any, err error) {
	defer func() {
		if r := recover(); r != nil {
			err = fmt.Errorf("library panicked: %v", r)
		}
	}()
	v, cerr := libvore.Compile(prog)
	if cerr != nil {
		return nil, cerr
	}
	list, pan := globListSafe(glob, dirB)
	if pan != "" {
		return nil, fmt.Errorf("glob panicked: %s", pan)
	}
	ms := v.RunFiles(list, modeOf(mode), false)
	js := strings.ReplaceAll(ms.Json(), dirB, dirA)
	var d any
	if e := json.Unmarshal([]byte(js), &d); e != nil {
		return nil, e
	}
	_ = files.ParsePath
	return d, nil
}

func cliCheckMain(args []string) int {
	fs := flag.NewFlagSet("clicheck", flag.ExitOnError)
	binary := fs.String("binary", "", "the built vore binary")
	expPath := fs.String("expect", "", "final states of spec/Cli.tla")
	reportPath := fs.String("report", "", "")
	replayDir := fs.String("replaydir", "", "")
	workers := fs.Int("workers", 16, "")
	every := fs.Int("every", 1, "take every n-th configuration")
	fs.Parse(args)
	start := time.Now()
	f, err := os.Open(*expPath)
	if err != nil {
		fmt.Fprintln(os.Stderr, err)
		return 2
	}
	defer f.Close()
	var exps []cliExp
	sc := bufio.NewScanner(f)
	sc.Buffer(make([]byte, 1<<20), 16<<20)
	for sc.Scan() {
		var e cliExp
		if json.Unmarshal(sc.Bytes(), &e) == nil && e.Cfg != nil {
			exps = append(exps, e)
		}
	}
	sort.Slice(exps, func(i, j int) bool { return canon(exps[i].Cfg) < canon(exps[j].Cfg) })
	rep := &Report{Property: "C18", Family: "cli", OtherDiffs: map[string]int{}, Violations: []Violation{}, Samples: []any{}, Undecided: []string{}}
	var mu sync.Mutex
	perSig := map[string]int{}
	add := func(kind, detail string, argv []string, e cliExp, got any) {
		mu.Lock()
		defer mu.Unlock()
		rep.NViolations++
		perSig[kind]++
		if perSig[kind] <= 8 {
			v := Violation{Property: "C18", Kind: kind, Sig: kind, Detail: detail, Src: strings.Join(argv, " "), Case: Node{"cfg": e.Cfg, "argv": argv, "expect": e}, Got: got}
			if *replayDir != "" {
				os.MkdirAll(*replayDir, 0o755)
				p := filepath.Join(*replayDir, hashOf([]any{e.Cfg, kind})+".json")
				b, _ := json.MarshalIndent(v, "", " ")
				os.WriteFile(p, b, 0o644)
				v.Replay = p
			}
			rep.Violations = append(rep.Violations, v)
		}
	}
	sem := make(chan struct{}, *workers)
	var wg sync.WaitGroup
	for k, e := range exps {
		if k%*every != 0 {
			continue
		}
		wg.Add(1)
		sem <- struct{}{}
		go func(e cliExp) {
			defer wg.Done()
			defer func() { <-sem }()
			dirA, _ := os.MkdirTemp("", "verif.cliA.")
			dirB, _ := os.MkdirTemp("", "verif.cliB.")
			defer os.RemoveAll(dirA)
			defer os.RemoveAll(dirB)
			seedDir(dirA)
			seedDir(dirB)
			cfg := e.Cfg
			prog := cliPrograms[nstr(cfg, "prog")]
			var argv []string
			switch nstr(cfg, "src") {
			case "com":
				argv = append(argv, "-com", prog)
			case "src":
				os.WriteFile(filepath.Join(dirA, "prog.vore"), []byte(prog), 0o644)
				argv = append(argv, "-src", "prog.vore")
			case "both":
				os.WriteFile(filepath.Join(dirA, "prog.vore"), []byte(prog), 0o644)
				argv = append(argv, "-src", "prog.vore", "-com", prog)
			case "srcmissing":
				argv = append(argv, "-src", "nosuchprogram.vore")
			}
			glob := ""
			switch nstr(cfg, "files") {
			case "one":
				glob = "f1.txt"
			case "glob":
				glob = "*.txt"
			case "none":
				glob = "nomatch*.zzz"
			}
			if glob != "" {
				argv = append(argv, "-files", glob)
			}
			switch nstr(cfg, "fmt") {
			case "json":
				argv = append(argv, "-json")
			case "fjson":
				argv = append(argv, "-formatted-json")
			case "both":
				argv = append(argv, "-json", "-formatted-json")
			}
			if nbool(cfg, "jfile") {
				argv = append(argv, "-json-file", "out.json")
			}
			if nbool(cfg, "fjfile") {
				argv = append(argv, "-formatted-json-file", "outf.json")
			}
			if m := nstr(cfg, "mode"); m != "default" {
				argv = append(argv, "-replace-mode", m)
			}
			if nbool(cfg, "noout") {
				argv = append(argv, "-no-output")
			}
			// for every other invocation the named output files exist already and hold more than any result:
			// a written file holds exactly the new document, a file that is not written stays as it was
			if h := hashOf([]any{argv}); h[len(h)-1]%2 == 1 {
				stale := strings.Repeat("[1, 2, 3]\n", 3000)
				if nbool(cfg, "jfile") {
					os.WriteFile(filepath.Join(dirA, "out.json"), []byte(stale), 0o644)
				}
				if nbool(cfg, "fjfile") {
					os.WriteFile(filepath.Join(dirA, "outf.json"), []byte(stale), 0o644)
				}
			}
			before := readDir(dirA)
			cmd := exec.Command(*binary, argv...)
			cmd.Dir = dirA
			var so, se bytes.Buffer
			cmd.Stdout, cmd.Stderr = &so, &se
			done := make(chan error, 1)
			cmd.Start()
			go func() { done <- cmd.Wait() }()
			var werr error
			select {
			case werr = <-done:
			case <-time.After(30 * time.Second):
				cmd.Process.Kill()
				add("hang", "the tool did not exit within 30 s", argv, e, nil)
				return
			}
			code := 0
			if ee, ok := werr.(*exec.ExitError); ok {
				code = ee.ExitCode()
			} else if werr != nil {
				code = -1
			}
			after := readDir(dirA)
			mu.Lock()
			rep.Evaluations++
			if e.Exit == 0 && e.Printed != "" && e.Printed != "nofiles" {
				rep.Nontrivial++
			}
			if len(rep.Samples) < 3 && rep.Evaluations%499 == 1 {
				rep.Samples = append(rep.Samples, Node{"argv": argv, "expect_exit": e.Exit, "expect_printed": e.Printed, "stdout_head": firstLine(so.String())})
			}
			mu.Unlock()
			got := Node{"exit": code, "stdout": truncate(so.String(), 400), "stderr": truncate(se.String(), 300)}
			// exit status
			if (e.Exit == 0) != (code == 0) {
				add("exit", fmt.Sprintf("expected exit %d, got %d", e.Exit, code), argv, e, got)
				return
			}
			if strings.Contains(se.String(), "panic:") || strings.Contains(se.String(), "goroutine ") {
				add("panic", "the tool panicked", argv, e, got)
				return
			}
			if e.Exit != 0 {
				if so.Len()+se.Len() == 0 {
					add("nomessage", "refused without a message", argv, e, got)
					return
				}
				for n, c := range before {
					if after[n] != c {
						add("fs", "a refused invocation modified "+n, argv, e, got)
						return
					}
				}
				if len(after) != len(before) {
					add("fs", "a refused invocation created a file", argv, e, got)
				}
				return
			}
			// the library's result on a copy of the directory
			effMode := e.Applied
			if effMode == "none" {
				effMode = "NOTHING"
			}
			var libDoc any
			if nstr(cfg, "files") != "none" {
				d, lerr := libraryRun(prog, glob, effMode, dirB, dirA)
				if lerr != nil {
					mu.Lock()
					rep.Undecided = append(rep.Undecided, "library run failed: "+lerr.Error())
					mu.Unlock()
					return
				}
				libDoc = d
			}
			// directory afterwards = library's directory + output files
			wantFS := readDir(dirB)
			if nstr(cfg, "src") == "src" {
				wantFS["prog.vore"] = prog
			}
			for n, c := range wantFS {
				if after[n] != c {
					add("fs", fmt.Sprintf("file %s: expected %q, got %q (mode %s)", n, c, after[n], e.Applied), argv, e, got)
					return
				}
			}
			wroteJ, wroteF := false, false
			for _, w := range e.Wrote {
				if w == "json" {
					wroteJ = true
				}
				if w == "fjson" {
					wroteF = true
				}
			}
			for n := range after {
				if _, ok := wantFS[n]; ok {
					continue
				}
				if (n == "out.json" && wroteJ) || (n == "outf.json" && wroteF) {
					continue
				}
				if c, was := before[n]; was && (n == "out.json" || n == "outf.json") && after[n] == c {
					continue // an existing output file that this invocation does not write
				}
				add("fs", "unexpected file "+n, argv, e, got)
				return
			}
			checkDoc := func(what string, data []byte) bool {
				d, derr := oneJSONDoc(data)
				if derr != nil {
					add("json", what+" is not exactly one JSON document: "+derr.Error(), argv, e, got)
					return false
				}
				if canon(d) != canon(libDoc) {
					add("doc", what+" differs from the library's result", argv, e, got)
					return false
				}
				return true
			}
			if wroteJ {
				if c, ok := after["out.json"]; !ok {
					add("missing", "-json-file was not written", argv, e, got)
					return
				} else if !checkDoc("-json-file", []byte(c)) {
					return
				}
			}
			if wroteF {
				if c, ok := after["outf.json"]; !ok {
					add("missing", "-formatted-json-file was not written", argv, e, got)
					return
				} else if !checkDoc("-formatted-json-file", []byte(c)) {
					return
				}
			}
			switch e.Printed {
			case "json", "fjson":
				checkDoc("standard output", so.Bytes())
			case "":
				if strings.TrimSpace(so.String()) != "" {
					add("noout", "-no-output printed something", argv, e, got)
				}
			default:
				if strings.TrimSpace(so.String()) == "" {
					add("stdout", "nothing was printed", argv, e, got)
				}
			}
		}(e)
	}
	wg.Wait()
	rep.WallS = time.Since(start).Seconds()
	b, _ := json.MarshalIndent(rep, "", " ")
	os.WriteFile(*reportPath, b, 0o644)
	return 0
}

func truncate(s string, n int) string {
	if len(s) > n {
		return s[:n] + "..."
	}
	return s
}

func init() { subcommands["clicheck"] = cliCheckMain }
