package main

// Instruction budget and step recording on top of hook H1
// (libvore/engine/verif_on.go).

import (
	"github.com/jmeaster30/vore/libvore/engine"
)

type budgetExceeded struct{}

var (
	stepBudget int
	stepN      int
	stepRec    *[]engine.VerifStep
)

func init() {
	engine.VerifStepHook = func(s engine.VerifStep) {
		stepN++
		if stepRec != nil {
			*stepRec = append(*stepRec, s)
		}
		if stepBudget > 0 && stepN > stepBudget {
			panic(budgetExceeded{})
		}
	}
}

func armBudget(n int) {
	stepBudget = n
	stepN = 0
}

func disarmBudget() { stepBudget = 0 }

func stepCount() int { return stepN }
