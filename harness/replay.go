package main

// replay: TLC-generated behaviours (case + what the specification allows)
// are forced through the real code and compared.

import (
	"bufio"
	"crypto/sha1"
	"encoding/hex"
	"encoding/json"
	"flag"
	"fmt"
	"os"
	"path/filepath"
	"sort"
	"strings"
	"sync"
	"time"
)

type ExpMatch struct {
	S    int   `json:"s"`
	E    int   `json:"e"`
	N    int   `json:"n"`
	LS   int   `json:"ls"`
	LE   int   `json:"le"`
	CS   int   `json:"cs"`
	CE   int   `json:"ce"`
	Vars any   `json:"vars"`
	Repl []int `json:"repl"`
}

type ExpText struct {
	T     []int      `json:"t"`
	Ms    []ExpMatch `json:"ms"`
	Firm  bool       `json:"firm"`
	Undef bool       `json:"undef"`
	NoRet bool       `json:"noret"`
	Skip  bool       `json:"skip"`
	Why   string     `json:"why"`
	// optional: the specification's instruction count (C10)
	Steps int `json:"steps,omitempty"`
}

type ExpCase struct {
	ID int       `json:"id"`
	R  []ExpText `json:"r"`
}

type Violation struct {
	Property string `json:"property"`
	Kind     string `json:"kind"` // spans, vars, num, loc, val, repl, wf, panic, hang, reject, budget, filediff
	Sig      string `json:"sig"`  // signature for the known-findings file
	Detail   string `json:"detail"`
	Src      string `json:"src"`
	Text     []int  `json:"text"`
	Case     Node   `json:"case"`
	Expect   any    `json:"expect,omitempty"`
	Got      any    `json:"got,omitempty"`
	Replay   string `json:"replay,omitempty"`
}

type Report struct {
	Property     string         `json:"property"`
	Family       string         `json:"family"`
	Evaluations  int            `json:"evaluations"`
	Programs     int            `json:"programs"`
	Nontrivial   int            `json:"distinct_nontrivial"`
	Abstained    int            `json:"abstained_quirk"`
	Rejected     int            `json:"rejected_by_compile"`
	AstMismatch  int            `json:"ast_mismatch"`
	AstChecked   int            `json:"ast_checked"`
	OtherDiffs   map[string]int `json:"other_diffs"`
	Violations   []Violation    `json:"violations"`
	NViolations  int            `json:"n_violations"`
	Samples      []any          `json:"samples"`
	Undecided    []string       `json:"undecided"`
	FileRuns     int            `json:"file_runs"`
	ExpectedHits int            `json:"expected_matches_total"`
	WallS        float64        `json:"wall_s"`
}

func hashOf(v any) string {
	b, _ := json.Marshal(v)
	h := sha1.Sum(b)
	return hex.EncodeToString(h[:8])
}

func expVarsMap(v any) map[string]any {
	if m, ok := v.(map[string]any); ok {
		return m
	}
	return map[string]any{}
}

// normVars drops, from the per-iteration maps of named loops, the entries
// that are empty: the engine records an empty map for every iteration it
// merely attempted (documents silent; DESIGN.md section 5), so only the
// iterations that bound something are compared.
func normVars(v any) any {
	m, ok := v.(map[string]any)
	if !ok {
		if arr, isArr := v.([]any); isArr && len(arr) == 0 {
			return v
		}
		return v
	}
	allDigits := len(m) > 0
	for k := range m {
		for _, c := range k {
			if c < '0' || c > '9' {
				allDigits = false
			}
		}
	}
	out := map[string]any{}
	for k, e := range m {
		ne := normVars(e)
		if allDigits {
			if em, ok := ne.(map[string]any); ok && len(em) == 0 {
				continue
			}
			if ea, ok := ne.([]any); ok && len(ea) == 0 {
				continue
			}
		}
		out[k] = ne
	}
	return out
}

func varsEqual(exp map[string]any, got map[string]any) bool {
	exp, _ = normVars(exp).(map[string]any)
	got, _ = normVars(got).(map[string]any)
	if len(exp) != len(got) {
		return false
	}
	for k, ev := range exp {
		gv, ok := got[k]
		if !ok {
			return false
		}
		if canon(ev) != canon(gv) {
			return false
		}
	}
	return true
}

func lineOf(t []int, off int) int {
	n := 1
	for i := 0; i < off && i < len(t); i++ {
		if t[i] == 10 {
			n++
		}
	}
	return n
}

func colOf(t []int, off int) int {
	last := 0
	for i := 0; i < off && i < len(t); i++ {
		if t[i] == 10 {
			last = i + 1
		}
	}
	return off - last + 1
}

func intsEq(a, b []int) bool {
	if len(a) != len(b) {
		return false
	}
	for i := range a {
		if a[i] != b[i] {
			return false
		}
	}
	return true
}

func isASCII(t []int) bool {
	for _, c := range t {
		if c >= 128 {
			return false
		}
	}
	return true
}

func containsSub(hay, needle []int) bool {
	if len(needle) == 0 {
		return true
	}
	for i := 0; i+len(needle) <= len(hay); i++ {
		if intsEq(hay[i:i+len(needle)], needle) {
			return true
		}
	}
	return false
}

func varsSubstrings(v map[string]any, val []int) bool {
	for _, x := range v {
		switch y := x.(type) {
		case []int:
			if !containsSub(val, y) {
				return false
			}
		case []any:
			if !containsSub(val, bytesJSON(anyBytes(y))) {
				return false
			}
		case map[string]any:
			if !varsSubstrings(y, val) {
				return false
			}
		}
	}
	return true
}

// wellFormed is the oracle-free half of C03: the implementation's own
// output checked against the input bytes.  cmdBounds gives, per command,
// how many matches belong to it (nil = one command).
func wellFormed(t []int, ms []MatchJ) string {
	prevEnd := -1
	prevN := 0
	for i, m := range ms {
		if !(0 <= m.S && m.S < m.E && m.E <= len(t)) {
			return fmt.Sprintf("match %d: offsets [%d,%d) not within 0 <= s < e <= %d", i, m.S, m.E, len(t))
		}
		if !intsEq(m.Val, t[m.S:m.E]) {
			return fmt.Sprintf("match %d: value is not input[%d:%d]", i, m.S, m.E)
		}
		if prevEnd >= 0 && m.N > prevN {
			// same command continues
			if m.S < prevEnd {
				return fmt.Sprintf("match %d: starts at %d before previous end %d", i, m.S, prevEnd)
			}
		}
		if m.LS != lineOf(t, m.S) || m.LE != lineOf(t, m.E) {
			return fmt.Sprintf("match %d: line [%d,%d], expected [%d,%d]", i, m.LS, m.LE, lineOf(t, m.S), lineOf(t, m.E))
		}
		if isASCII(t) && (m.CS != colOf(t, m.S) || m.CE != colOf(t, m.E)) {
			return fmt.Sprintf("match %d: column [%d,%d], expected [%d,%d]", i, m.CS, m.CE, colOf(t, m.S), colOf(t, m.E))
		}
		if !varsSubstrings(m.Vars, m.Val) {
			return fmt.Sprintf("match %d: a variable is not a substring of the value", i)
		}
		prevEnd = m.E
		prevN = m.N
	}
	return ""
}

type cmpOpts struct {
	fields map[string]bool
}

// compareMatches returns the first difference per category.
func compareMatches(t []int, exp []ExpMatch, got []MatchJ, replace bool, noret bool) map[string]string {
	d := map[string]string{}
	if len(exp) != len(got) {
		d["spans"] = fmt.Sprintf("expected %d matches, got %d", len(exp), len(got))
		return d
	}
	for i := range exp {
		e, g := exp[i], got[i]
		if e.S != g.S || e.E != g.E {
			d["spans"] = fmt.Sprintf("match %d: expected [%d,%d), got [%d,%d)", i, e.S, e.E, g.S, g.E)
			return d
		}
	}
	for i := range exp {
		e, g := exp[i], got[i]
		if _, ok := d["vars"]; !ok && !varsEqual(expVarsMap(e.Vars), g.Vars) {
			d["vars"] = fmt.Sprintf("match %d: expected variables %s, got %s", i, canon(expVarsMap(e.Vars)), canon(g.Vars))
		}
		if _, ok := d["num"]; !ok && e.N != g.N {
			d["num"] = fmt.Sprintf("match %d: expected matchNumber %d, got %d", i, e.N, g.N)
		}
		if _, ok := d["loc"]; !ok && (e.LS != g.LS || e.LE != g.LE || (isASCII(t) && (e.CS != g.CS || e.CE != g.CE))) {
			d["loc"] = fmt.Sprintf("match %d: expected line [%d,%d] column [%d,%d], got line [%d,%d] column [%d,%d]", i, e.LS, e.LE, e.CS, e.CE, g.LS, g.LE, g.CS, g.CE)
		}
		if _, ok := d["val"]; !ok && !intsEq(g.Val, t[e.S:e.E]) {
			d["val"] = fmt.Sprintf("match %d: value differs from input[%d:%d]", i, e.S, e.E)
		}
		if replace && !noret {
			if _, ok := d["repl"]; !ok && !intsEq(e.Repl, g.Repl) {
				d["repl"] = fmt.Sprintf("match %d: expected replacement %v, got %v", i, e.Repl, g.Repl)
			}
		}
	}
	return d
}

func loadCases(path string) (map[int]Node, []int, error) {
	f, err := os.Open(path)
	if err != nil {
		return nil, nil, err
	}
	defer f.Close()
	out := map[int]Node{}
	var order []int
	sc := bufio.NewScanner(f)
	sc.Buffer(make([]byte, 1<<20), 64<<20)
	for sc.Scan() {
		line := strings.TrimSpace(sc.Text())
		if line == "" {
			continue
		}
		var n Node
		if err := json.Unmarshal([]byte(line), &n); err != nil {
			return nil, nil, fmt.Errorf("case line: %v", err)
		}
		id := nint(n, "id")
		if _, dup := out[id]; dup {
			// two cases under one id would pair a program with another one's expectation
			return nil, nil, fmt.Errorf("duplicate case id %d", id)
		}
		out[id] = n
		order = append(order, id)
	}
	return out, order, sc.Err()
}

func caseHasReplace(c Node) bool {
	for _, cmd := range nlist(c, "cmds") {
		if nstr(cmd, "kind") == "replace" {
			return true
		}
	}
	return false
}

func replayMain(args []string) int {
	fs := flag.NewFlagSet("replay", flag.ExitOnError)
	prop := fs.String("property", "", "property id")
	family := fs.String("family", "", "family label")
	casesPath := fs.String("cases", "", "cases ndjson")
	expPath := fs.String("expect", "", "expectations ndjson (from TLC)")
	fieldsArg := fs.String("fields", "spans", "comma list of categories that are violations of this property")
	reportPath := fs.String("report", "", "report json output")
	replayDir := fs.String("replaydir", "", "directory for replay files")
	workers := fs.Int("workers", 16, "worker processes")
	mode := fs.String("mode", "string", "string|both")
	wantAst := fs.Bool("ast", true, "check renderer round trip against the implementation's parser")
	rejectIsViolation := fs.Bool("reject-violation", false, "a compile error on a scope program is a violation")
	timeoutS := fs.Int("timeout", 30, "per-request wall clock limit (s)")
	budgetMul := fs.Int("budget-mul", 0, "instruction budget = mul*spec steps + 10000 (0 = no budget)")
	maxViol := fs.Int("max-violations", 10, "examples recorded per violation signature")
	fs.Parse(args)

	start := time.Now()
	fields := map[string]bool{}
	for _, f := range strings.Split(*fieldsArg, ",") {
		fields[strings.TrimSpace(f)] = true
	}
	cases, _, err := loadCases(*casesPath)
	if err != nil {
		fmt.Fprintln(os.Stderr, "replay:", err)
		return 2
	}
	ef, err := os.Open(*expPath)
	if err != nil {
		fmt.Fprintln(os.Stderr, "replay:", err)
		return 2
	}
	defer ef.Close()

	rep := &Report{Property: *prop, Family: *family, OtherDiffs: map[string]int{}, Violations: []Violation{}, Samples: []any{}, Undecided: []string{}}
	var mu sync.Mutex
	pool := NewPool(*workers, time.Duration(*timeoutS)*time.Second)
	defer pool.Close()

	perSig := map[string]int{}
	fatal := 0 // budget / hang / crash verdicts: a few settle the matter, the rest of the scope would take hours
	addViolation := func(v Violation) {
		mu.Lock()
		defer mu.Unlock()
		rep.NViolations++
		perSig[v.Sig]++
		if v.Kind == "budget" || v.Kind == "hang" || v.Kind == "crash" {
			fatal++
		}
		// keep a bounded number of examples per signature, so that a frequent
		// (possibly known) class cannot hide a different one
		if perSig[v.Sig] <= *maxViol {
			if *replayDir != "" {
				os.MkdirAll(*replayDir, 0o755)
				p := filepath.Join(*replayDir, hashOf([]any{v.Src, v.Text, v.Kind})+".json")
				b, _ := json.MarshalIndent(v, "", " ")
				os.WriteFile(p, b, 0o644)
				v.Replay = p
			}
			rep.Violations = append(rep.Violations, v)
		}
	}

	sem := make(chan struct{}, *workers)
	var wg sync.WaitGroup
	sc := bufio.NewScanner(ef)
	sc.Buffer(make([]byte, 1<<20), 256<<20)
	seen := map[string]bool{}
	for sc.Scan() {
		line := strings.TrimSpace(sc.Text())
		if line == "" {
			continue
		}
		var ec ExpCase
		if err := json.Unmarshal([]byte(line), &ec); err != nil {
			fmt.Fprintln(os.Stderr, "replay: bad expectation line:", err)
			return 2
		}
		c, ok := cases[ec.ID]
		if !ok {
			fmt.Fprintln(os.Stderr, "replay: expectation for unknown case", ec.ID)
			return 2
		}
		wg.Add(1)
		sem <- struct{}{}
		go func(ec ExpCase, c Node) {
			defer wg.Done()
			defer func() { <-sem }()
			mu.Lock()
			stop := fatal >= 6
			if stop {
				rep.OtherDiffs["cases_skipped_after_fatal_verdicts"] += len(ec.R)
			}
			mu.Unlock()
			if stop {
				return
			}
			src := renderProgram(c)
			// texts the specification declines to run (process code whose
			// termination it cannot establish) are not sent to the real code
			kept := ec.R[:0:0]
			for _, r := range ec.R {
				if r.Skip {
					mu.Lock()
					rep.Abstained++
					mu.Unlock()
					continue
				}
				kept = append(kept, r)
			}
			ec.R = kept
			texts := make([][]int, len(ec.R))
			for i, r := range ec.R {
				texts[i] = r.T
			}
			req := &Req{Op: "run", Src: src, Texts: texts, WantAst: *wantAst, Mode: *mode}
			if *budgetMul > 0 {
				req.Budgets = make([]int, len(ec.R))
				for i, r := range ec.R {
					req.Budgets[i] = *budgetMul*r.Steps + 10000
				}
			}
			resp := pool.Do(req)
			replace := caseHasReplace(c)
			mu.Lock()
			rep.Programs++
			if len(rep.Samples) < 3 && len(ec.R) > 0 {
				rep.Samples = append(rep.Samples, Node{"src": src, "text": ec.R[len(ec.R)-1].T, "expect": ec.R[len(ec.R)-1].Ms})
			}
			mu.Unlock()
			if acc, has := c["accept"].(bool); has && resp.Crash == "" {
				implAccepts := resp.CErr == "" && resp.CPanic == "" && !resp.BothNil
				mu.Lock()
				rep.Evaluations++
				if !acc {
					rep.Nontrivial++
				}
				mu.Unlock()
				if resp.CPanic == "" && implAccepts != acc {
					if fields["accept"] {
						what := "rejects"
						if implAccepts {
							what = "accepts"
						}
						addViolation(Violation{Property: *prop, Kind: "accept", Sig: "accept", Src: src, Case: c,
							Detail: fmt.Sprintf("the typing rules say accept=%v but Compile %s it: %s", acc, what, resp.CErr)})
					}
					return
				}
				if !acc {
					return
				}
			}
			if resp.Crash != "" {
				// isolate the text that kills the worker
				for i := range ec.R {
					mu.Lock()
					stop := fatal >= 6
					mu.Unlock()
					if stop {
						break
					}
					r1 := pool.Do(&Req{Op: "run", Src: src, Texts: [][]int{texts[i]}, Mode: *mode, Budget: *budgetMul*ec.R[i].Steps + 10000*boolInt(*budgetMul > 0)})
					evalOne(rep, &mu, addViolation, fields, *prop, c, src, &ec.R[i], r1, 0, replace, *rejectIsViolation, seen, *budgetMul)
				}
				return
			}
			if *wantAst && resp.CErr == "" && resp.CPanic == "" {
				mu.Lock()
				rep.AstChecked++
				if resp.AstErr != "" || canon(anyList(resp.Ast)) != canon(stripToks(anyList(caseAsCommands(c)))) {
					rep.AstMismatch++
					if len(rep.Undecided) < 5 {
						rep.Undecided = append(rep.Undecided, "ast mismatch: "+src+" => "+resp.AstErr+" "+canon(anyList(resp.Ast)))
					}
				}
				mu.Unlock()
			}
			for i := range ec.R {
				evalOne(rep, &mu, addViolation, fields, *prop, c, src, &ec.R[i], resp, i, replace, *rejectIsViolation, seen, *budgetMul)
			}
		}(ec, c)
	}
	wg.Wait()
	if err := sc.Err(); err != nil {
		fmt.Fprintln(os.Stderr, "replay:", err)
		return 2
	}
	rep.WallS = time.Since(start).Seconds()
	sort.Slice(rep.Violations, func(i, j int) bool { return rep.Violations[i].Src+fmt.Sprint(rep.Violations[i].Text) < rep.Violations[j].Src+fmt.Sprint(rep.Violations[j].Text) })
	b, _ := json.MarshalIndent(rep, "", " ")
	if *reportPath != "" {
		os.WriteFile(*reportPath, b, 0o644)
	} else {
		os.Stdout.Write(b)
	}
	return 0
}

func boolInt(b bool) int {
	if b {
		return 1
	}
	return 0
}

func anyList(ns []Node) []any {
	out := make([]any, len(ns))
	for i, n := range ns {
		out[i] = normalizeJSON(n)
	}
	return out
}

// normalizeJSON round-trips through encoding/json so that []int, []Node and
// friends compare equal to what a decoder produced.
func normalizeJSON(v any) any {
	b, _ := json.Marshal(v)
	var out any
	json.Unmarshal(b, &out)
	return out
}

func evalOne(rep *Report, mu *sync.Mutex, addViolation func(Violation), fields map[string]bool, prop string, c Node, src string, et *ExpText, resp *Resp, idx int, replace bool, rejectIsViolation bool, seen map[string]bool, budgetMul int) {
	mu.Lock()
	rep.Evaluations++
	key := src + "\x00" + fmt.Sprint(et.T)
	if !seen[key] {
		seen[key] = true
		if len(et.Ms) > 0 {
			rep.Nontrivial++
		}
	}
	rep.ExpectedHits += len(et.Ms)
	mu.Unlock()
	mk := func(kind, sig, detail string, got any) Violation {
		return Violation{Property: prop, Kind: kind, Sig: sig, Detail: detail, Src: src, Text: et.T, Case: c, Expect: et.Ms, Got: got}
	}
	if resp.Crash != "" {
		kind := "crash"
		if resp.Crash == "timeout" {
			kind = "hang"
		}
		if fields[kind] || fields["panic"] {
			addViolation(mk(kind, kind, "worker "+resp.Crash, nil))
		} else {
			mu.Lock()
			rep.Undecided = append(rep.Undecided, kind+": "+src)
			mu.Unlock()
		}
		return
	}
	if resp.CPanic != "" {
		if fields["cpanic"] || fields["panic"] {
			addViolation(mk("cpanic", "cpanic:"+resp.CStack, "Compile panicked: "+resp.CPanic+" @ "+resp.CStack, nil))
		}
		return
	}
	if resp.CErr != "" || resp.BothNil {
		mu.Lock()
		rep.Rejected++
		mu.Unlock()
		if rejectIsViolation {
			addViolation(mk("reject", "reject", "Compile rejected a program of the scope: "+resp.CErr, nil))
		}
		return
	}
	if idx >= len(resp.Runs) {
		mu.Lock()
		rep.Undecided = append(rep.Undecided, "missing run result: "+src)
		mu.Unlock()
		return
	}
	rr := resp.Runs[idx]
	if et.Steps > 0 && rr.Steps > 0 {
		mu.Lock()
		if rr.Steps != et.Steps {
			rep.OtherDiffs["steps_differ_from_spec"]++
		} else {
			rep.OtherDiffs["steps_equal_spec"]++
		}
		mu.Unlock()
	}
	if rr.Over {
		addViolation(mk("budget", "budget", fmt.Sprintf("instruction budget exceeded after %d steps", rr.Steps), nil))
		return
	}
	if rr.Panic != "" {
		sig := "panic"
		if et.Undef {
			sig = "undef:" + et.Why // the specification itself says the transform has no defined value
		}
		addViolation(mk("panic", sig, "Run panicked: "+rr.Panic+" @ "+rr.Stack, nil))
		return
	}
	if et.Undef {
		// the language defines no value here; whatever came back is not compared
		mu.Lock()
		rep.Abstained++
		mu.Unlock()
		return
	}
	// oracle-free well-formedness of the implementation's own output
	if fields["wf"] {
		if msg := wellFormedPerCommand(et.T, rr.Ms); msg != "" {
			addViolation(mk("wf", "wf", msg, rr.Ms))
			return
		}
	}
	if rr.FRan {
		mu.Lock()
		rep.FileRuns++
		mu.Unlock()
		if rr.FPanic != "" {
			if fields["filediff"] || fields["panic"] {
				addViolation(mk("panic", "filepanic", "RunFiles panicked: "+rr.FPanic, nil))
			}
			return
		}
		if fields["filediff"] {
			if msg := sameMatches(rr.Ms, rr.FMs); msg != "" {
				addViolation(mk("filediff", "filediff", "file vs string: "+msg, Node{"string": rr.Ms, "file": rr.FMs}))
				return
			}
			if rr.F2Ran {
				if rr.F2Panic != "" {
					addViolation(mk("panic", "filepanic", "RunFiles on two files panicked: "+rr.F2Panic, nil))
					return
				}
				// commands x files: per command, the matches of the first file then of the second
				if msg := twoFilesMatch(rr.FMs, rr.F2Ms); msg != "" {
					addViolation(mk("filediff", "filediff2", "two files with the same bytes vs one: "+msg, Node{"one": rr.FMs, "two": rr.F2Ms}))
					return
				}
			}
		}
	}
	if !et.Firm {
		mu.Lock()
		rep.Abstained++
		mu.Unlock()
		return
	}
	d := compareMatches(et.T, et.Ms, rr.Ms, replace, et.NoRet)
	// report at most one violation per (case, text): the first category in a
	// fixed order that belongs to this property
	for _, k := range []string{"spans", "vars", "num", "loc", "val", "repl"} {
		msg, has := d[k]
		if !has {
			continue
		}
		if fields[k] {
			addViolation(mk(k, k, msg, rr.Ms))
			return
		}
		mu.Lock()
		rep.OtherDiffs[k]++
		mu.Unlock()
	}
}

// matches of several commands are concatenated; numbering restarts per command
func wellFormedPerCommand(t []int, ms []MatchJ) string {
	start := 0
	for i := 1; i <= len(ms); i++ {
		if i == len(ms) || ms[i].N <= ms[i-1].N {
			seg := ms[start:i]
			if msg := wellFormed(t, seg); msg != "" {
				return msg
			}
			for j := 1; j < len(seg); j++ {
				if seg[j].N != seg[j-1].N+1 {
					return fmt.Sprintf("match numbers not consecutive: %d then %d", seg[j-1].N, seg[j].N)
				}
			}
			start = i
		}
	}
	return ""
}

// twoFilesMatch: running on [f, g] (same bytes) must give, per command, the
// matches on f followed by the same matches on g
func twoFilesMatch(one, two []MatchJ) string {
	if len(two) != 2*len(one) {
		return fmt.Sprintf("%d matches on one file, %d on two", len(one), len(two))
	}
	// split `one` into per-command segments (match numbers restart)
	var segs [][]MatchJ
	start := 0
	for i := 1; i <= len(one); i++ {
		if i == len(one) || one[i].N <= one[i-1].N {
			segs = append(segs, one[start:i])
			start = i
		}
	}
	k := 0
	for _, seg := range segs {
		for rep := 0; rep < 2; rep++ {
			if msg := sameMatches(seg, two[k:k+len(seg)]); msg != "" {
				return msg
			}
			k += len(seg)
		}
	}
	return ""
}

func sameMatches(a, b []MatchJ) string {
	if len(a) != len(b) {
		return fmt.Sprintf("%d matches vs %d", len(a), len(b))
	}
	for i := range a {
		x, y := a[i], b[i]
		if x.S != y.S || x.E != y.E || x.N != y.N || x.LS != y.LS || x.LE != y.LE || x.CS != y.CS || x.CE != y.CE || !intsEq(x.Val, y.Val) || !varsEqual(x.Vars, y.Vars) || x.HasR != y.HasR || !intsEq(x.Repl, y.Repl) {
			return fmt.Sprintf("match %d differs", i)
		}
	}
	return ""
}
