package main

import (
	"encoding/json"
	"fmt"
	"os"
)

// try: compile a source and run it on a text, print what came back
func init() {
	subcommands["try"] = func(args []string) int {
		if len(args) < 2 {
			fmt.Println("usage: try <src> <text>")
			return 2
		}
		v, err, pan, st := compileSafe(args[0])
		if pan != "" {
			fmt.Println("COMPILE PANIC:", pan, st)
			return 1
		}
		if err != nil {
			fmt.Println("COMPILE ERROR:", err)
			return 1
		}
		ms, p, st2, steps, _ := runSafe(v, args[1], 0)
		if p != "" {
			fmt.Println("RUN PANIC:", p, st2)
			return 1
		}
		for _, m := range projMatches(ms) {
			b, _ := json.Marshal(m)
			fmt.Printf("%q %s\n", toText(m.Val), b)
		}
		fmt.Println("matches:", len(ms), "steps:", steps)
		return 0
	}
}

func init() {
	subcommands["render"] = func(args []string) int {
		var c Node
		if err := json.NewDecoder(os.Stdin).Decode(&c); err != nil {
			return 2
		}
		fmt.Println(renderProgram(c))
		return 0
	}
}

// alone1: one source compiled and run in a process of its own (stdin: {src, texts}); the baseline
// "what the call returns when executed alone" for sources outside the modelled subsets
func init() {
	subcommands["alone1"] = func(args []string) int {
		var in Node
		if err := json.NewDecoder(os.Stdin).Decode(&in); err != nil {
			return 2
		}
		out := Node{}
		v, err, pan, _ := compileSafe(nstr(in, "src"))
		if pan != "" {
			out["cpanic"] = pan
		} else if err != nil {
			out["cerr"] = err.Error()
		} else {
			var runs []any
			if arr, ok := in["texts"].([]any); ok {
				for _, t := range arr {
					ms, p, _, _, _ := runSafe(v, string(anyBytes(t)), 0)
					if p != "" {
						runs = append(runs, Node{"panic": p})
						continue
					}
					runs = append(runs, projMatches(ms))
				}
			}
			out["runs"] = runs
		}
		b, _ := json.Marshal(out)
		fmt.Println(string(b))
		return 0
	}
}
