package main

// Export of the implementation's own bytecode in the instruction format of
// spec/Codegen.tla, and recording of engine step traces (hook H1) for
// validation against spec/VM.tla.

import (
	"bufio"
	"encoding/json"
	"flag"
	"fmt"
	"os"
	"strings"

	"github.com/jmeaster30/vore/libvore/ast"
	"github.com/jmeaster30/vore/libvore/bytecode"
	"github.com/jmeaster30/vore/libvore/engine"
)

var opNames = map[string]string{
	"MatchLiteral": "lit", "MatchCharClass": "class", "MatchVariable": "var", "MatchRange": "rng",
	"CallSubroutine": "call", "Branch": "branch", "StartNotIn": "notin+", "FailNotIn": "notin-",
	"EndNotIn": "notin!", "StartLoop": "loop+", "StopLoop": "loop-", "StartVarDec": "var+",
	"EndVarDec": "var-", "StartSubroutine": "sub+", "EndSubroutine": "sub-", "Jump": "jump",
}

func projInstrs(insts []bytecode.SearchInstruction) []Node {
	ids := map[int64]int{}
	lid := func(id int64) int {
		if v, ok := ids[id]; ok {
			return v
		}
		ids[id] = len(ids) + 1
		return ids[id]
	}
	out := make([]Node, len(insts))
	for k, in := range insts {
		switch i := in.(type) {
		case bytecode.MatchLiteral:
			out[k] = Node{"op": "lit", "s": bytesJSON([]byte(i.ToFind)), "neg": i.Not, "ci": i.Caseless}
		case bytecode.MatchCharClass:
			kn := classNames[i.Class]
			out[k] = Node{"op": "class", "k": kn[0], "c": kn[1], "neg": i.Not}
		case bytecode.MatchVariable:
			out[k] = Node{"op": "var", "name": i.Name}
		case bytecode.MatchRange:
			out[k] = Node{"op": "rng", "a": bytesJSON([]byte(i.From)), "b": bytesJSON([]byte(i.To))}
		case bytecode.CallSubroutine:
			out[k] = Node{"op": "call", "name": i.Name, "to": i.ToPC}
		case bytecode.Branch:
			out[k] = Node{"op": "branch", "targets": append([]int{}, i.Branches...)}
		case bytecode.StartNotIn:
			out[k] = Node{"op": "notin+", "next": i.NextCheckpointPC}
		case bytecode.FailNotIn:
			out[k] = Node{"op": "notin-"}
		case bytecode.EndNotIn:
			out[k] = Node{"op": "notin!", "max": i.MaxSize}
		case bytecode.StartLoop:
			out[k] = Node{"op": "loop+", "id": lid(i.Id), "min": i.MinLoops, "max": i.MaxLoops, "few": i.Fewest, "exit": i.ExitLoop, "name": i.Name}
		case bytecode.StopLoop:
			out[k] = Node{"op": "loop-", "start": i.StartLoop}
		case bytecode.StartVarDec:
			out[k] = Node{"op": "var+", "name": i.Name}
		case bytecode.EndVarDec:
			out[k] = Node{"op": "var-", "name": i.Name}
		case bytecode.StartSubroutine:
			out[k] = Node{"op": "sub+", "id": i.Id, "name": i.Name, "end": i.EndOffset}
		case bytecode.EndSubroutine:
			pred := projStmts(i.Validate)
			if pred == nil {
				pred = []Node{}
			}
			out[k] = Node{"op": "sub-", "name": i.Name, "pred": pred}
		case bytecode.Jump:
			out[k] = Node{"op": "jump", "to": i.NewProgramCounter}
		default:
			out[k] = Node{"op": fmt.Sprintf("?%T", in)}
		}
	}
	return out
}

type cmdCode struct {
	Kind string
	Code []Node
	AmtF Node
}

// compileToBytecode runs the real parser and generator and projects every
// find/replace command.
func compileToBytecode(src string) (cmds []cmdCode, err error) {
	defer func() {
		if r := recover(); r != nil {
			err = fmt.Errorf("panic: %v", r)
		}
	}()
	a, perr := ast.ParseReader(strings.NewReader(src))
	if perr != nil {
		return nil, perr
	}
	bc, gerr := bytecode.GenerateBytecode(a)
	if gerr != nil {
		return nil, gerr
	}
	for _, c := range bc.Bytecode {
		switch x := c.(type) {
		case bytecode.FindCommand:
			cmds = append(cmds, cmdCode{"find", projInstrs(x.Body), Node{"all": x.All, "skip": x.Skip, "take": x.Take, "last": x.Last}})
		case bytecode.ReplaceCommand:
			cmds = append(cmds, cmdCode{"replace", projInstrs(x.Body), Node{"all": x.All, "skip": x.Skip, "take": x.Take, "last": x.Last}})
		}
	}
	return cmds, nil
}

func envNode(s string) Node {
	out := Node{}
	for _, kv := range strings.Split(s, ";") {
		if kv == "" {
			continue
		}
		i := strings.IndexByte(kv, '=')
		if i < 0 {
			continue
		}
		out[kv[:i]] = bytesJSON([]byte(kv[i+1:]))
	}
	return out
}

var statusNames = []string{"ok", "fail", "run"}

// traceMain: for every input case (program + explicit texts) write
//   <out>.cases.ndjson : one line per (program, text): real bytecode, amount, text
//   <out>.trace.ndjson : reset / step / done events recorded from the engine
func traceMain(args []string) int {
	fs := flag.NewFlagSet("trace", flag.ExitOnError)
	casesPath := fs.String("cases", "", "cases ndjson (program AST or src, explicit texts)")
	outPrefix := fs.String("out", "", "output prefix")
	maxEvents := fs.Int("max-events", 400000, "stop recording after this many events")
	fs.Parse(args)
	cases, order, err := loadCases(*casesPath)
	if err != nil {
		fmt.Fprintln(os.Stderr, "trace:", err)
		return 2
	}
	cf, _ := os.Create(*outPrefix + ".cases.ndjson")
	tf, _ := os.Create(*outPrefix + ".trace.ndjson")
	cw := bufio.NewWriter(cf)
	tw := bufio.NewWriter(tf)
	defer cf.Close()
	defer tf.Close()
	cenc := json.NewEncoder(cw)
	tenc := json.NewEncoder(tw)
	nCases, nEvents, skipped, overBudget := 0, 0, 0, 0
	for _, id := range order {
		c := cases[id]
		src := nstr(c, "src")
		if src == "" {
			src = renderProgram(c)
		}
		cmds, cerr := compileToBytecode(src)
		if cerr != nil || len(cmds) == 0 {
			skipped++
			continue
		}
		v, verr, pan, _ := compileSafe(src)
		if verr != nil || pan != "" || v == nil {
			skipped++
			continue
		}
		texts, _ := c["texts"].([]any)
		for _, t := range texts {
			if nEvents >= *maxEvents {
				break
			}
			text := anyBytes(t)
			// one trace per command: the engine runs the commands one after another
			var rec []engine.VerifStep
			stepRec = &rec
			// budgeted: a run that needs more than 200000 instructions is not recorded
			ms, p, _, _, over := runSafe(v, string(text), 200000)
			stepRec = nil
			if over {
				overBudget++
				continue
			}
			if p != "" {
				skipped++
				continue
			}
			// split the recorded steps per command: a new command starts when
			// the attempt offset goes back to 0 after having advanced, or the
			// op sequence restarts; simpler and exact: run commands separately
			if len(cmds) != 1 {
				skipped++
				continue
			}
			nCases++
			cenc.Encode(Node{"id": nCases, "src": src, "code": cmds[0].Code, "amtf": cmds[0].AmtF, "texts": [][]int{bytesJSON(text)}})
			tenc.Encode(Node{"ev": "reset", "c": nCases})
			for _, s := range rec {
				name := opNames[s.Op]
				tenc.Encode(Node{"ev": "step", "a": s.Attempt, "pc0": s.PC0, "op": name, "pc": s.PC, "pos": s.Pos,
					"bt": s.BT, "loops": s.Loops, "calls": s.Calls, "open": s.Open, "st": statusNames[s.Status], "env": envNode(s.Env)})
				nEvents++
			}
			outms := []Node{}
			for _, m := range projMatches(ms) {
				vars := m.Vars
				outms = append(outms, Node{"s": m.S, "e": m.E, "n": m.N, "ls": m.LS, "le": m.LE, "cs": m.CS, "ce": m.CE, "vars": vars})
			}
			tenc.Encode(Node{"ev": "done", "out": outms})
			nEvents++
		}
	}
	cw.Flush()
	tw.Flush()
	fmt.Printf("{\"cases\":%d,\"events\":%d,\"skipped\":%d,\"over_budget\":%d}\n", nCases, nEvents, skipped, overBudget)
	return 0
}

func init() {
	subcommands["trace"] = traceMain
	subcommands["bytecode"] = func(args []string) int {
		cmds, err := compileToBytecode(args[0])
		if err != nil {
			fmt.Println("ERROR:", err)
			return 1
		}
		for _, c := range cmds {
			for pc, i := range c.Code {
				b, _ := json.Marshal(i)
				fmt.Printf("%3d %s\n", pc, b)
			}
		}
		return 0
	}
}
