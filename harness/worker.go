package main

// The worker: a subprocess that executes requests against the real code.
// One JSON request per input line, one JSON response per output line.
// Anything that can hang, exhaust memory or crash the process is therefore
// contained: the master kills and restarts workers.

import (
	"bufio"
	"encoding/json"
	"fmt"
	"os"
	"runtime"
	"runtime/debug"
	"strings"
	"time"

	"github.com/jmeaster30/vore/libvore"
	"github.com/jmeaster30/vore/libvore/ast"
	"github.com/jmeaster30/vore/libvore/engine"
)

type Req struct {
	Op    string  `json:"op"`
	Src   string  `json:"src,omitempty"`
	Texts [][]int `json:"texts,omitempty"`
	// WantAst: also return the implementation's own AST, projected
	WantAst bool `json:"wantast,omitempty"`
	// Mode: "string" (Run) or "file" (RunFiles on a temp file) or "both"
	Mode   string `json:"mode,omitempty"`
	Budget int    `json:"budget,omitempty"` // instruction budget per run (0 = none)
	Budgets []int `json:"budgets,omitempty"` // per-text instruction budgets
	Arg    Node   `json:"arg,omitempty"`    // op-specific arguments
}

type RunRes struct {
	Panic string   `json:"panic,omitempty"`
	Stack string   `json:"stack,omitempty"`
	Ms    []MatchJ `json:"ms"`
	Steps int      `json:"steps,omitempty"`
	Over  bool     `json:"over,omitempty"` // instruction budget exceeded
	// file mode
	FPanic string   `json:"fpanic,omitempty"`
	FMs    []MatchJ `json:"fms,omitempty"`
	FRan   bool     `json:"fran,omitempty"`
	// two filename arguments holding the same bytes: the result must be the single-file result twice
	F2Panic string   `json:"f2panic,omitempty"`
	F2Ms    []MatchJ `json:"f2ms,omitempty"`
	F2Ran   bool     `json:"f2ran,omitempty"`
}

type Resp struct {
	Crash   string   `json:"crash,omitempty"` // set by the master only
	CErr    string   `json:"cerr,omitempty"`
	CErrT   string   `json:"cerrt,omitempty"`
	CPanic  string   `json:"cpanic,omitempty"`
	CStack  string   `json:"cstack,omitempty"`
	BothNil bool     `json:"bothnil,omitempty"`
	BothSet bool     `json:"bothset,omitempty"`
	Ast     []Node   `json:"ast,omitempty"`
	AstErr  string   `json:"asterr,omitempty"`
	Runs    []RunRes `json:"runs,omitempty"`
	Out     Node     `json:"out,omitempty"`
}

func shortStack() string {
	s := string(debug.Stack())
	lines := strings.Split(s, "\n")
	var keep []string
	for _, l := range lines {
		l = strings.TrimSpace(l)
		// keep "file.go:line" of repository frames only (no addresses, no arguments)
		if (strings.Contains(l, "/libvore/") || strings.Contains(l, "vore/main.go")) && strings.Contains(l, ".go:") {
			if i := strings.Index(l, " +0x"); i > 0 {
				l = l[:i]
			}
			if i := strings.Index(l, "/libvore/"); i >= 0 {
				l = l[i+1:]
			}
			keep = append(keep, l)
		}
		if len(keep) >= 4 {
			break
		}
	}
	return strings.Join(keep, " | ")
}

// compileSafe calls libvore.Compile under recover.
func compileSafe(src string) (v *libvore.Vore, err error, pan string, stack string) {
	defer func() {
		if r := recover(); r != nil {
			pan = fmt.Sprint(r)
			stack = shortStack()
		}
	}()
	v, err = libvore.Compile(src)
	return
}

func runSafe(v *libvore.Vore, text string, budget int) (ms engine.Matches, pan string, stack string, steps int, over bool) {
	defer func() {
		steps = stepCount()
		if r := recover(); r != nil {
			if _, ok := r.(budgetExceeded); ok {
				over = true
				return
			}
			pan = fmt.Sprint(r)
			stack = shortStack()
		}
	}()
	armBudget(budget)
	defer disarmBudget()
	ms = v.Run(text)
	return
}

func runFilesSafe(v *libvore.Vore, files []string, mode engine.ReplaceMode) (ms engine.Matches, pan string, stack string) {
	defer func() {
		if r := recover(); r != nil {
			pan = fmt.Sprint(r)
			stack = shortStack()
		}
	}()
	ms = v.RunFiles(files, mode, false)
	return
}

func toText(t []int) string {
	b := make([]byte, len(t))
	for i, x := range t {
		b[i] = byte(x)
	}
	return string(b)
}

func errType(err error) string {
	switch err.(type) {
	case *ast.LexError:
		return "LexError"
	case *ast.ParseError:
		return "ParseError"
	}
	return fmt.Sprintf("%T", err)
}

func errMessage(err error) (msg string, pan string) {
	defer func() {
		if r := recover(); r != nil {
			pan = fmt.Sprint(r)
		}
	}()
	msg = err.Error()
	return
}

func isNilVore(v *libvore.Vore) bool { return v == nil }

func handleRun(req *Req) *Resp {
	resp := &Resp{}
	v, err, pan, stack := compileSafe(req.Src)
	if pan != "" {
		resp.CPanic = pan
		resp.CStack = stack
		return resp
	}
	if err != nil {
		msg, mp := errMessage(err)
		if mp != "" {
			resp.CPanic = "Error() panicked: " + mp
			return resp
		}
		resp.CErr = msg
		if resp.CErr == "" {
			resp.CErr = "(empty error message)"
		}
		resp.CErrT = errType(err)
		if v != nil {
			resp.BothSet = true
		}
		return resp
	}
	if v == nil {
		resp.BothNil = true
		return resp
	}
	if req.WantAst {
		a, perr := parseAstSafe(req.Src)
		if perr != "" {
			resp.AstErr = perr
		} else {
			resp.Ast = a
		}
	}
	tmpdir := ""
	for ti, t := range req.Texts {
		text := toText(t)
		rr := RunRes{}
		budget := req.Budget
		if ti < len(req.Budgets) {
			budget = req.Budgets[ti]
		}
		if req.Mode != "file" {
			ms, p, st, steps, over := runSafe(v, text, budget)
			rr.Panic, rr.Stack, rr.Steps, rr.Over = p, st, steps, over
			rr.Ms = projMatches(ms)
		}
		if req.Mode == "file" || req.Mode == "both" {
			if tmpdir == "" {
				d, e := os.MkdirTemp("", "verif.w.")
				if e != nil {
					rr.FPanic = "harness: " + e.Error()
				}
				tmpdir = d
			}
			fn := tmpdir + "/f.txt"
			if e := os.WriteFile(fn, []byte(text), 0o644); e == nil {
				ms, p, _ := runFilesSafe(v, []string{fn}, engine.NOTHING)
				rr.FRan = true
				rr.FPanic = p
				rr.FMs = projMatches(ms)
				fn2 := tmpdir + "/g.txt"
				if e2 := os.WriteFile(fn2, []byte(text), 0o644); e2 == nil && p == "" {
					ms2, p2, _ := runFilesSafe(v, []string{fn, fn2}, engine.NOTHING)
					rr.F2Ran = true
					rr.F2Panic = p2
					rr.F2Ms = projMatches(ms2)
				}
			}
		}
		resp.Runs = append(resp.Runs, rr)
	}
	if tmpdir != "" {
		os.RemoveAll(tmpdir)
	}
	return resp
}

func parseAstSafe(src string) (cmds []Node, perr string) {
	defer func() {
		if r := recover(); r != nil {
			perr = fmt.Sprint("parse panic: ", r)
		}
	}()
	a, err := ast.ParseReader(strings.NewReader(src))
	if err != nil {
		return nil, "parse error: " + err.Error()
	}
	c, e := projAst(a)
	if e != nil {
		return nil, e.Error()
	}
	return c, ""
}

var opHandlers = map[string]func(*Req) *Resp{
	"run": handleRun,
}

func workerMain() {
	// soft memory limit plus a hard watchdog: a request that drives the heap
	// beyond the limit kills the worker (the master reports it as a crash)
	limit := int64(1500 << 20)
	debug.SetMemoryLimit(limit)
	go func() {
		var ms runtime.MemStats
		for {
			time.Sleep(200 * time.Millisecond)
			runtime.ReadMemStats(&ms)
			if int64(ms.HeapAlloc) > 2*limit {
				fmt.Fprintln(os.Stderr, "worker: heap limit exceeded")
				os.Exit(97)
			}
		}
	}()
	in := bufio.NewReaderSize(os.Stdin, 1<<20)
	out := bufio.NewWriterSize(os.Stdout, 1<<20)
	// the engine's `debug` statement and ParsePath print to stdout; keep the
	// protocol on a private descriptor
	proto := os.NewFile(3, "proto")
	if proto != nil {
		out = bufio.NewWriterSize(proto, 1<<20)
	}
	dec := json.NewDecoder(in)
	enc := json.NewEncoder(out)
	for {
		var req Req
		if err := dec.Decode(&req); err != nil {
			return
		}
		h := opHandlers[req.Op]
		var resp *Resp
		if h == nil {
			resp = &Resp{Crash: "unknown op " + req.Op}
		} else {
			resp = h(&req)
		}
		if err := enc.Encode(resp); err != nil {
			return
		}
		out.Flush()
	}
}
