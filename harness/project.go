package main

// Projection of the implementation's own data (AST, matches, bytecode) onto
// the specification's vocabulary.

import (
	"fmt"
	"reflect"

	"github.com/jmeaster30/vore/libvore/ast"
	"github.com/jmeaster30/vore/libvore/engine"
)

var classNames = map[ast.AstCharacterClassType][2]string{
	ast.ClassAny:        {"cls", "any"},
	ast.ClassWhitespace: {"cls", "whitespace"},
	ast.ClassDigit:      {"cls", "digit"},
	ast.ClassUpper:      {"cls", "upper"},
	ast.ClassLower:      {"cls", "lower"},
	ast.ClassLetter:     {"cls", "letter"},
	ast.ClassFileStart:  {"anc", "filestart"},
	ast.ClassFileEnd:    {"anc", "fileend"},
	ast.ClassLineStart:  {"anc", "linestart"},
	ast.ClassLineEnd:    {"anc", "lineend"},
	ast.ClassWordStart:  {"anc", "wordstart"},
	ast.ClassWordEnd:    {"anc", "wordend"},
	ast.ClassWholeFile:  {"whole", "file"},
	ast.ClassWholeLine:  {"whole", "line"},
	ast.ClassWholeWord:  {"whole", "word"},
}

type holeError struct{ what string }

func (h holeError) Error() string { return "hole in AST: " + h.what }

func isNilIface(v any) bool {
	if v == nil {
		return true
	}
	rv := reflect.ValueOf(v)
	switch rv.Kind() {
	case reflect.Ptr, reflect.Interface, reflect.Slice, reflect.Map:
		return rv.IsNil()
	}
	return false
}

func projString(s *ast.AstString) Node {
	return Node{"k": "lit", "s": bytesJSON([]byte(s.Value)), "neg": s.Not, "ci": s.Caseless}
}

func projClass(c *ast.AstCharacterClass) Node {
	kn, ok := classNames[c.ClassType]
	if !ok {
		panic(holeError{fmt.Sprintf("unknown class %d", c.ClassType)})
	}
	return Node{"k": kn[0], "c": kn[1], "neg": c.Not}
}

func projExprs(es []ast.AstExpression) []Node {
	out := make([]Node, len(es))
	for i, e := range es {
		out[i] = projExpr(e)
	}
	return out
}

func projLiteral(l ast.AstLiteral) Node {
	if isNilIface(l) {
		panic(holeError{"nil literal"})
	}
	switch x := l.(type) {
	case *ast.AstString:
		return projString(x)
	case *ast.AstSubExpr:
		return Node{"k": "seq", "es": projExprs(x.Body)}
	case *ast.AstVariable:
		return Node{"k": "ref", "name": x.Name}
	case *ast.AstCharacterClass:
		return projClass(x)
	}
	panic(holeError{fmt.Sprintf("unknown literal %T", l)})
}

func projListable(l ast.AstListable) Node {
	if isNilIface(l) {
		panic(holeError{"nil listable"})
	}
	switch x := l.(type) {
	case *ast.AstString:
		return projString(x)
	case *ast.AstCharacterClass:
		return projClass(x)
	case *ast.AstRange:
		if x.From == nil || x.To == nil {
			panic(holeError{"nil range end"})
		}
		return Node{"k": "rng", "a": bytesJSON([]byte(x.From.Value)), "b": bytesJSON([]byte(x.To.Value))}
	}
	panic(holeError{fmt.Sprintf("unknown listable %T", l)})
}

func projExpr(e ast.AstExpression) Node {
	if isNilIface(e) {
		panic(holeError{"nil expression"})
	}
	switch x := e.(type) {
	case *ast.AstLoop:
		return Node{"k": "loop", "min": x.Min, "max": x.Max, "few": x.Fewest, "name": x.Name, "body": projExpr(x.Body)}
	case *ast.AstBranch:
		return Node{"k": "or", "l": projLiteral(x.Left), "r": projExpr(x.Right)}
	case *ast.AstDec:
		return Node{"k": "cap", "name": x.Name, "body": projLiteral(x.Body)}
	case *ast.AstSub:
		return Node{"k": "sub", "name": x.Name, "es": projExprs(x.Body)}
	case *ast.AstList:
		items := make([]Node, len(x.Contents))
		for i, it := range x.Contents {
			items[i] = projListable(it)
		}
		return Node{"k": "in", "neg": x.Not, "items": items}
	case *ast.AstPrimary:
		return projLiteral(x.Literal)
	}
	panic(holeError{fmt.Sprintf("unknown expression %T", e)})
}

var tokOps = map[ast.TokenType]string{
	ast.PLUS: "+", ast.MINUS: "-", ast.MULT: "*", ast.DIV: "/", ast.MOD: "%",
	ast.DEQUAL: "==", ast.NEQUAL: "!=", ast.LESS: "<", ast.GREATER: ">", ast.LESSEQ: "<=", ast.GREATEREQ: ">=",
	ast.AND: "and", ast.OR: "or", ast.NOT: "not", ast.HEAD: "head", ast.TAIL: "tail",
}

func projPExpr(e ast.AstProcessExpression) Node {
	if isNilIface(e) {
		panic(holeError{"nil process expression"})
	}
	switch x := e.(type) {
	case ast.AstProcessBinaryExpression:
		return Node{"k": "bin", "op": tokOps[x.Op], "l": projPExpr(x.Lhs), "r": projPExpr(x.Rhs)}
	case ast.AstProcessUnaryExpression:
		return Node{"k": "un", "op": tokOps[x.Op], "e": projPExpr(x.Expr)}
	case ast.AstProcessString:
		return Node{"k": "str", "v": bytesJSON([]byte(x.Value))}
	case ast.AstProcessNumber:
		return Node{"k": "num", "v": x.Value}
	case ast.AstProcessBoolean:
		return Node{"k": "bool", "v": x.Value}
	case ast.AstProcessVariable:
		return Node{"k": "var", "name": x.Name}
	}
	panic(holeError{fmt.Sprintf("unknown process expression %T", e)})
}

func projStmts(ss []ast.AstProcessStatement) []Node {
	out := make([]Node, len(ss))
	for i, s := range ss {
		out[i] = projStmt(s)
	}
	return out
}

func projStmt(s ast.AstProcessStatement) Node {
	if isNilIface(s) {
		panic(holeError{"nil statement"})
	}
	switch x := s.(type) {
	case *ast.AstProcessSet:
		return Node{"k": "set", "name": x.Name, "e": projPExpr(x.Expr)}
	case *ast.AstProcessReturn:
		return Node{"k": "ret", "e": projPExpr(x.Expr)}
	case *ast.AstProcessDebug:
		return Node{"k": "dbg", "e": projPExpr(x.Expr)}
	case *ast.AstProcessIf:
		return Node{"k": "if", "c": projPExpr(x.Condition), "th": projStmts(x.TrueBody), "el": projStmts(x.FalseBody)}
	case *ast.AstProcessLoop:
		return Node{"k": "loop", "body": projStmts(x.Body)}
	case ast.AstProcessBreak:
		return Node{"k": "brk"}
	case ast.AstProcessContinue:
		return Node{"k": "cont"}
	}
	panic(holeError{fmt.Sprintf("unknown statement %T", s)})
}

func projAmount(all bool, skip, take, last int) Node {
	switch {
	case last != 0:
		return Node{"k": "last", "n": last}
	case all && skip == 0:
		return Node{"k": "all"}
	case all:
		return Node{"k": "skip", "s": skip}
	case skip == 0:
		return Node{"k": "take", "n": take}
	default:
		return Node{"k": "skiptake", "s": skip, "t": take}
	}
}

func projCommand(c ast.AstCommand) Node {
	if isNilIface(c) {
		panic(holeError{"nil command"})
	}
	switch x := c.(type) {
	case *ast.AstFind:
		return Node{"kind": "find", "amt": projAmount(x.All, x.Skip, x.Take, x.Last), "body": projExprs(x.Body)}
	case *ast.AstReplace:
		with := make([]Node, len(x.Result))
		for i, a := range x.Result {
			if isNilIface(a) {
				panic(holeError{"nil atom"})
			}
			switch y := a.(type) {
			case *ast.AstString:
				with[i] = Node{"k": "str", "s": bytesJSON([]byte(y.Value))}
			case *ast.AstVariable:
				with[i] = Node{"k": "name", "name": y.Name}
			default:
				panic(holeError{fmt.Sprintf("unknown atom %T", a)})
			}
		}
		return Node{"kind": "replace", "amt": projAmount(x.All, x.Skip, x.Take, x.Last), "body": projExprs(x.Body), "with": with}
	case *ast.AstSet:
		if isNilIface(x.Body) {
			panic(holeError{"nil set body"})
		}
		switch b := x.Body.(type) {
		case *ast.AstSetPattern:
			return Node{"kind": "setpattern", "name": x.Id, "es": projExprs(b.Pattern), "pred": projStmts(b.Body)}
		case *ast.AstSetTransform:
			return Node{"kind": "settransform", "name": x.Id, "stmts": projStmts(b.Statements)}
		case *ast.AstSetMatches:
			return Node{"kind": "setmatches", "name": x.Id, "cmd": projCommand(b.Command)}
		}
		panic(holeError{fmt.Sprintf("unknown set body %T", x.Body)})
	}
	panic(holeError{fmt.Sprintf("unknown command %T", c)})
}

// projAst converts the implementation's AST into the list of command nodes;
// err is non-nil when the tree contains a hole (nil node) or an unknown node.
func projAst(a *ast.Ast) (cmds []Node, err error) {
	defer func() {
		if r := recover(); r != nil {
			if h, ok := r.(holeError); ok {
				err = h
				return
			}
			err = fmt.Errorf("projection panic: %v", r)
		}
	}()
	for _, c := range a.Commands() {
		cmds = append(cmds, projCommand(c))
	}
	return cmds, nil
}

// caseAsCommands lays a case program out as the command list the
// implementation's parser should produce for its rendering.
func caseAsCommands(c Node) []Node {
	var out []Node
	for _, d := range nlist(c, "defs") {
		pred := nlist(d, "pred")
		if pred == nil {
			pred = []Node{}
		}
		out = append(out, Node{"kind": "setpattern", "name": nstr(d, "name"), "es": nlist(d, "es"), "pred": pred})
	}
	for _, t := range nlist(c, "trans") {
		out = append(out, Node{"kind": "settransform", "name": nstr(t, "name"), "stmts": nlist(t, "stmts")})
	}
	for _, cmd := range nlist(c, "cmds") {
		for _, d := range nlist(cmd, "defs_before") {
			pred := nlist(d, "pred")
			if pred == nil {
				pred = []Node{}
			}
			out = append(out, Node{"kind": "setpattern", "name": nstr(d, "name"), "es": nlist(d, "es"), "pred": pred})
		}
		out = append(out, commandAsNode(cmd))
	}
	return out
}

func commandAsNode(cmd Node) Node {
	if nstr(cmd, "kind") == "setmatches" {
		return Node{"kind": "setmatches", "name": nstr(cmd, "name"), "cmd": commandAsNode(nnode(cmd, "cmd"))}
	}
	n := Node{"kind": nstr(cmd, "kind"), "amt": normAmount(nnode(cmd, "amt")), "body": nlist(cmd, "body")}
	if nstr(cmd, "kind") == "replace" {
		n["with"] = nlist(cmd, "with")
	}
	return n
}

// `top n` and `take n` are the same tree
func normAmount(a Node) Node {
	if nstr(a, "k") == "top" {
		return Node{"k": "take", "n": nint(a, "n")}
	}
	if nstr(a, "k") == "" {
		return Node{"k": "all"}
	}
	return a
}

// ------------------------------------------------------------- matches

type MatchJ struct {
	S    int            `json:"s"`
	E    int            `json:"e"`
	N    int            `json:"n"`
	LS   int            `json:"ls"`
	LE   int            `json:"le"`
	CS   int            `json:"cs"`
	CE   int            `json:"ce"`
	Val  []int          `json:"val"`
	Vars map[string]any `json:"vars"`
	Repl []int          `json:"repl,omitempty"`
	HasR bool           `json:"hasr"`
	File string         `json:"file,omitempty"`
}

func projVars(v any) any {
	switch x := v.(type) {
	case string:
		return bytesJSON([]byte(x))
	case map[string]any:
		out := map[string]any{}
		for k, e := range x {
			out[k] = projVars(e)
		}
		return out
	}
	return nil
}

func projMatch(m engine.Match) MatchJ {
	mj := MatchJ{
		S: m.Offset.Start, E: m.Offset.End, N: m.MatchNumber,
		LS: m.Line.Start, LE: m.Line.End, CS: m.Column.Start, CE: m.Column.End,
		Val: bytesJSON([]byte(m.Value)), File: m.Filename,
	}
	if vm, ok := m.Variables.ToGo().(map[string]any); ok {
		mj.Vars = projVars(vm).(map[string]any)
	} else {
		mj.Vars = map[string]any{}
	}
	if m.Replacement.HasValue() {
		mj.HasR = true
		mj.Repl = bytesJSON([]byte(m.Replacement.GetValue()))
	}
	return mj
}

func projMatches(ms engine.Matches) []MatchJ {
	out := make([]MatchJ, len(ms))
	for i, m := range ms {
		out[i] = projMatch(m)
	}
	return out
}
