package main

// C15: layout variants (enumerated by TLC from spec/Layout.tla) against
// their originals on the real code: accepted exactly when the original is,
// same syntax tree, same results on probe texts.

import (
	"bufio"
	"encoding/json"
	"flag"
	"fmt"
	"os"
	"path/filepath"
	"strings"
	"sync"
	"time"
)

var keywordSet = map[string]bool{}

func init() {
	for _, k := range strings.Fields("find replace with set to pattern matches transform function all skip take top last any whitespace digit upper lower letter line file word start end begin not at least most between and exactly maybe fewest named in or if then else debug return head tail loop continue break true false whole caseless") {
		keywordSet[k] = true
	}
	opHandlers["astrun"] = handleAstRun
	subcommands["layoutcheck"] = layoutCheckMain
}

// op "astrun": compile; canonical tree; results on the probe texts
func handleAstRun(req *Req) *Resp {
	resp := &Resp{Out: Node{}}
	v, err, pan, stack := compileSafe(req.Src)
	if pan != "" {
		resp.CPanic, resp.CStack = pan, stack
		return resp
	}
	if err != nil {
		resp.CErr = err.Error()
		resp.CErrT = errType(err)
		return resp
	}
	a, perr := parseAstSafe(req.Src)
	if perr != "" {
		resp.AstErr = perr
	}
	resp.Out["ast"] = canon(anyList(a))
	var runs []string
	for _, t := range req.Texts {
		// a fixed instruction budget, the same for the original and the variant: deterministic, load-independent
		ms, p, _, _, over := runSafe(v, toText(t), 150000)
		if over {
			runs = append(runs, "budget")
			continue
		}
		if p != "" {
			runs = append(runs, "panic:"+p)
			continue
		}
		b, _ := json.Marshal(projMatches(ms))
		runs = append(runs, string(b))
	}
	resp.Out["runs"] = runs
	return resp
}

type layoutLine struct {
	P    int   `json:"p"`
	Edit Node  `json:"edit"`
	Src  []int `json:"src"`
}

func layoutCheckMain(args []string) int {
	fs := flag.NewFlagSet("layoutcheck", flag.ExitOnError)
	in := fs.String("in", "", "")
	reportPath := fs.String("report", "", "")
	replayDir := fs.String("replaydir", "", "")
	workers := fs.Int("workers", 16, "")
	fs.Parse(args)
	start := time.Now()
	f, err := os.Open(*in)
	if err != nil {
		fmt.Fprintln(os.Stderr, err)
		return 2
	}
	defer f.Close()
	groups := map[int][]layoutLine{}
	sc := bufio.NewScanner(f)
	sc.Buffer(make([]byte, 1<<20), 64<<20)
	for sc.Scan() {
		line := strings.TrimSpace(sc.Text())
		if line == "" {
			continue
		}
		var l layoutLine
		if err := json.Unmarshal([]byte(line), &l); err != nil {
			fmt.Fprintln(os.Stderr, "bad line:", err)
			return 2
		}
		groups[l.P] = append(groups[l.P], l)
	}
	probes := [][]int{bytesJSON([]byte("a")), bytesJSON([]byte("ab")), bytesJSON([]byte("aab b12\nxyz abc\n")),
		bytesJSON([]byte("z9 12 ab q, x 12\nAB ab\n")), bytesJSON([]byte("<div>x</div> 3.5e2 \"a\",b\n15 9 10")), bytesJSON([]byte("12z 13z"))}
	rep := &Report{Property: "C15", Family: "layout", OtherDiffs: map[string]int{}, Violations: []Violation{}, Samples: []any{}, Undecided: []string{}}
	var mu sync.Mutex
	pool := NewPool(*workers, 180*time.Second)
	defer pool.Close()
	perSig := map[string]int{}
	add := func(kind, detail, orig, variant string, edit Node) {
		mu.Lock()
		defer mu.Unlock()
		rep.NViolations++
		perSig[kind]++
		if perSig[kind] <= 8 {
			v := Violation{Property: "C15", Kind: kind, Sig: kind, Detail: detail, Src: variant, Case: Node{"original": orig, "variant": variant, "edit": edit}}
			if *replayDir != "" {
				os.MkdirAll(*replayDir, 0o755)
				p := filepath.Join(*replayDir, hashOf([]any{orig, variant})+".json")
				b, _ := json.MarshalIndent(v, "", " ")
				os.WriteFile(p, b, 0o644)
				v.Replay = p
			}
			rep.Violations = append(rep.Violations, v)
		}
	}
	var wg sync.WaitGroup
	sem := make(chan struct{}, *workers)
	for _, g := range groups {
		var orig *layoutLine
		for i := range g {
			if nstr(g[i].Edit, "k") == "original" {
				orig = &g[i]
			}
		}
		if orig == nil {
			fmt.Fprintln(os.Stderr, "layoutcheck: group without original")
			return 2
		}
		osrc := toText(orig.Src)
		oresp := pool.Do(&Req{Op: "astrun", Src: osrc, Texts: probes})
		if oresp.Crash != "" || oresp.CPanic != "" {
			mu.Lock()
			rep.Undecided = append(rep.Undecided, "original does not compile cleanly: "+osrc[:min(60, len(osrc))])
			mu.Unlock()
			continue
		}
		mu.Lock()
		rep.Programs++
		mu.Unlock()
		for i := range g {
			l := g[i]
			if nstr(l.Edit, "k") == "original" {
				continue
			}
			vsrc := toText(l.Src)
			if nstr(l.Edit, "k") == "recase" {
				// only keywords are case-insensitive: find the word that changed
				if !recasedKeyword(osrc, vsrc) {
					continue
				}
			}
			wg.Add(1)
			sem <- struct{}{}
			go func(l layoutLine, vsrc string) {
				defer wg.Done()
				defer func() { <-sem }()
				r := pool.Do(&Req{Op: "astrun", Src: vsrc, Texts: probes})
				if r.Crash != "" {
					// a lost worker is re-examined once before it counts
					r = pool.Do(&Req{Op: "astrun", Src: vsrc, Texts: probes})
				}
				mu.Lock()
				rep.Evaluations++
				if oresp.CErr == "" {
					rep.Nontrivial++
				}
				if len(rep.Samples) < 3 && rep.Evaluations%211 == 1 {
					rep.Samples = append(rep.Samples, Node{"original": osrc, "variant": vsrc, "edit": l.Edit})
				}
				mu.Unlock()
				switch {
				case r.Crash != "":
					add("crash", "worker "+r.Crash, osrc, vsrc, l.Edit)
				case r.CPanic != "":
					add("cpanic", "Compile panicked on the variant: "+r.CPanic, osrc, vsrc, l.Edit)
				case (r.CErr == "") != (oresp.CErr == ""):
					add("accept", fmt.Sprintf("original accepted=%v, variant accepted=%v (%s)", oresp.CErr == "", r.CErr == "", firstLine(r.CErr+oresp.CErr)), osrc, vsrc, l.Edit)
				case r.CErr != "":
					// both rejected: nothing more to compare
				case nstr(r.Out, "ast") != nstr(oresp.Out, "ast"):
					add("ast", "the variant parses to a different syntax tree", osrc, vsrc, l.Edit)
				case canon(r.Out["runs"]) != canon(oresp.Out["runs"]):
					add("results", "the variant gives different results on the probe texts", osrc, vsrc, l.Edit)
				}
			}(l, vsrc)
		}
	}
	wg.Wait()
	rep.WallS = time.Since(start).Seconds()
	b, _ := json.MarshalIndent(rep, "", " ")
	os.WriteFile(*reportPath, b, 0o644)
	return 0
}

func firstLine(s string) string {
	if i := strings.IndexByte(s, '\n'); i >= 0 {
		return s[:i]
	}
	return s
}

func min(a, b int) int {
	if a < b {
		return a
	}
	return b
}

// recasedKeyword: the two sources differ only in the letter case of one
// word; true when that word is a keyword
func recasedKeyword(a, b string) bool {
	if len(a) != len(b) {
		return false
	}
	i := 0
	for i < len(a) && a[i] == b[i] {
		i++
	}
	if i == len(a) {
		return false
	}
	isWord := func(c byte) bool { return c >= 'a' && c <= 'z' || c >= 'A' && c <= 'Z' || c >= '0' && c <= '9' }
	s := i
	for s > 0 && isWord(a[s-1]) {
		s--
	}
	e := i
	for e < len(a) && isWord(a[e]) {
		e++
	}
	return keywordSet[strings.ToLower(a[s:e])]
}
