package main

// C20: the specification's file lists (spec/Glob.tla) against
// ParsePath(p).GetFileList on materialised directory trees.

import (
	"encoding/json"
	"flag"
	"fmt"
	"os"
	"path/filepath"
	"sort"
	"strings"
	"time"

	"github.com/jmeaster30/vore/libvore/files"
)

func segsToString(v any) string {
	arr, _ := v.([]any)
	parts := make([]string, len(arr))
	for i, s := range arr {
		parts[i] = string(anyBytes(s))
	}
	return strings.Join(parts, "/")
}

func globListSafe(pattern, dir string) (out []string, pan string) {
	defer func() {
		if r := recover(); r != nil {
			pan = fmt.Sprint(r)
		}
	}()
	// ParsePath prints to stdout; keep it away from our output
	old := os.Stdout
	devnull, _ := os.Open(os.DevNull)
	os.Stdout = devnull
	defer func() { os.Stdout = old; devnull.Close() }()
	out = files.ParsePath(pattern).GetFileList(dir)
	return
}

func globCheckMain(args []string) int {
	fs := flag.NewFlagSet("globcheck", flag.ExitOnError)
	casesPath := fs.String("cases", "", "")
	reportPath := fs.String("report", "", "")
	replayDir := fs.String("replaydir", "", "")
	fs.Parse(args)
	start := time.Now()
	cases, order, err := loadCases(*casesPath)
	if err != nil {
		fmt.Fprintln(os.Stderr, err)
		return 2
	}
	rep := &Report{Property: "C20", Family: "glob", OtherDiffs: map[string]int{}, Violations: []Violation{}, Samples: []any{}, Undecided: []string{}}
	perSig := map[string]int{}
	add := func(kind, detail, pattern string, c Node, got any, want any) {
		rep.NViolations++
		perSig[kind]++
		if perSig[kind] <= 10 {
			v := Violation{Property: "C20", Kind: kind, Sig: kind, Detail: detail, Src: pattern, Case: Node{"pattern": pattern, "tree": c["tree"]}, Got: got, Expect: want}
			if *replayDir != "" {
				os.MkdirAll(*replayDir, 0o755)
				p := filepath.Join(*replayDir, hashOf([]any{pattern, nint(c, "id"), kind})+".json")
				b, _ := json.MarshalIndent(v, "", " ")
				os.WriteFile(p, b, 0o644)
				v.Replay = p
			}
			rep.Violations = append(rep.Violations, v)
		}
	}
	// a case with "after": n is listed in the directory of case n (same path, same process), emptied and rebuilt
	keep := map[int]bool{}
	for _, id := range order {
		if a := nint(cases[id], "after"); a != 0 {
			keep[a] = true
		}
	}
	dirOf := map[int]string{}
	for _, id := range order {
		c := cases[id]
		var dir string
		var e error
		if a := nint(c, "after"); a != 0 && dirOf[a] != "" {
			dir = dirOf[a]
			entries, _ := os.ReadDir(dir)
			for _, en := range entries {
				os.RemoveAll(filepath.Join(dir, en.Name()))
			}
		} else {
			dir, e = os.MkdirTemp("", "verif.glob.")
		}
		if e != nil {
			fmt.Fprintln(os.Stderr, e)
			return 2
		}
		dirOf[id] = dir
		nfiles := 0
		for _, en := range nlist(c, "tree") {
			p := filepath.Join(dir, segsToString(en["path"]))
			if nbool(en, "dir") {
				os.MkdirAll(p, 0o755)
			} else {
				os.MkdirAll(filepath.Dir(p), 0o755)
				os.WriteFile(p, []byte("x"), 0o644)
				nfiles++
			}
		}
		rep.Programs++
		for _, pt := range nlist(c, "pats") {
			rel := segsToString(pt["segs"])
			var want []string
			if arr, ok := pt["expect"].([]any); ok {
				for _, w := range arr {
					want = append(want, segsToString(w))
				}
			}
			sort.Strings(want)
			// relative pattern (resolved against dir) and absolute pattern
			for _, abs := range []bool{false, true} {
				pattern := rel
				if abs {
					pattern = dir + "/" + rel
				}
				got, pan := globListSafe(pattern, dir)
				rep.Evaluations++
				if len(want) > 0 && !abs {
					rep.Nontrivial++
				}
				if pan != "" {
					add("panic", "GetFileList panicked: "+pan, pattern, c, nil, want)
					continue
				}
				var g []string
				for _, x := range got {
					x = filepath.Clean(x)
					x = strings.TrimPrefix(x, filepath.Clean(dir))
					x = strings.TrimLeft(x, "/")
					g = append(g, x)
				}
				sort.Strings(g)
				if strings.Join(g, "\n") != strings.Join(want, "\n") {
					missing, extra, dup := diffLists(want, g)
					add("list", fmt.Sprintf("pattern %q: missing %v, extra %v, duplicates %v", rel, missing, extra, dup), pattern, c, g, want)
				}
				if len(rep.Samples) < 3 && len(want) > 1 && rep.Evaluations%101 == 1 {
					rep.Samples = append(rep.Samples, Node{"pattern": rel, "expect": want, "files_in_tree": nfiles})
				}
			}
		}
		if !keep[id] {
			os.RemoveAll(dir)
		}
	}
	for id := range keep {
		os.RemoveAll(dirOf[id])
	}
	rep.WallS = time.Since(start).Seconds()
	b, _ := json.MarshalIndent(rep, "", " ")
	os.WriteFile(*reportPath, b, 0o644)
	return 0
}

func diffLists(want, got []string) (missing, extra, dup []string) {
	w := map[string]int{}
	g := map[string]int{}
	for _, x := range want {
		w[x]++
	}
	for _, x := range got {
		g[x]++
	}
	for x := range w {
		if g[x] == 0 {
			missing = append(missing, x)
		}
	}
	for x, n := range g {
		if w[x] == 0 {
			extra = append(extra, x)
		} else if n > 1 {
			dup = append(dup, x)
		}
	}
	sort.Strings(missing)
	sort.Strings(extra)
	sort.Strings(dup)
	if len(missing) > 6 {
		missing = missing[:6]
	}
	if len(extra) > 6 {
		extra = extra[:6]
	}
	return
}

func init() { subcommands["globcheck"] = globCheckMain }
