package main

// The master side of the worker protocol: a pool of worker subprocesses,
// each request under a wall-clock limit; a worker that hangs, dies or
// exhausts memory is killed and replaced and the request is answered with
// Crash set.

import (
	"bufio"
	"encoding/json"
	"fmt"
	"io"
	"os"
	"os/exec"
	"strings"
	"sync"
	"time"
)

type workerProc struct {
	cmd    *exec.Cmd
	stdin  io.WriteCloser
	enc    *json.Encoder
	dec    *json.Decoder
	proto  *os.File
	stderr *tailBuf
}

type tailBuf struct {
	mu  sync.Mutex
	buf []byte
}

func (t *tailBuf) Write(p []byte) (int, error) {
	t.mu.Lock()
	defer t.mu.Unlock()
	t.buf = append(t.buf, p...)
	if len(t.buf) > 4096 {
		t.buf = t.buf[len(t.buf)-4096:]
	}
	return len(p), nil
}

func (t *tailBuf) String() string {
	t.mu.Lock()
	defer t.mu.Unlock()
	return string(t.buf)
}

func startWorker() (*workerProc, error) {
	self, err := os.Executable()
	if err != nil {
		return nil, err
	}
	cmd := exec.Command(self, "worker")
	stdin, err := cmd.StdinPipe()
	if err != nil {
		return nil, err
	}
	pr, pw, err := os.Pipe()
	if err != nil {
		return nil, err
	}
	cmd.ExtraFiles = []*os.File{pw}
	cmd.Stdout = io.Discard
	tb := &tailBuf{}
	cmd.Stderr = tb
	if err := cmd.Start(); err != nil {
		return nil, err
	}
	pw.Close()
	return &workerProc{cmd: cmd, stdin: stdin, enc: json.NewEncoder(stdin), dec: json.NewDecoder(bufio.NewReaderSize(pr, 1<<20)), proto: pr, stderr: tb}, nil
}

func (w *workerProc) kill() {
	if w == nil {
		return
	}
	w.stdin.Close()
	if w.cmd.Process != nil {
		w.cmd.Process.Kill()
	}
	w.cmd.Wait()
	w.proto.Close()
}

type Pool struct {
	n       int
	timeout time.Duration
	slots   chan *workerProc
}

func NewPool(n int, timeout time.Duration) *Pool {
	p := &Pool{n: n, timeout: timeout, slots: make(chan *workerProc, n)}
	for i := 0; i < n; i++ {
		p.slots <- nil
	}
	return p
}

func (p *Pool) Close() {
	for i := 0; i < p.n; i++ {
		w := <-p.slots
		if w != nil && os.Getenv("GOCOVERDIR") != "" {
			// development aid (coverage runs): let an idle worker end by itself so that it writes its counters
			w.stdin.Close()
			done := make(chan struct{})
			go func() { w.cmd.Wait(); close(done) }()
			select {
			case <-done:
				w.proto.Close()
				continue
			case <-time.After(5 * time.Second):
			}
		}
		w.kill()
	}
}

// Do sends one request to some worker and waits for the answer.
func (p *Pool) Do(req *Req) *Resp {
	w := <-p.slots
	if w == nil {
		var err error
		w, err = startWorker()
		if err != nil {
			p.slots <- nil
			return &Resp{Crash: "harness: cannot start worker: " + err.Error()}
		}
	}
	type result struct {
		resp *Resp
		err  error
	}
	ch := make(chan result, 1)
	go func() {
		if err := w.enc.Encode(req); err != nil {
			ch <- result{nil, err}
			return
		}
		var r Resp
		err := w.dec.Decode(&r)
		ch <- result{&r, err}
	}()
	select {
	case r := <-ch:
		if r.err != nil {
			w.kill()
			msg := strings.TrimSpace(w.stderr.String())
			if len(msg) > 600 {
				msg = msg[len(msg)-600:]
			}
			p.slots <- nil
			return &Resp{Crash: fmt.Sprintf("worker died: %v: %s", r.err, msg)}
		}
		p.slots <- w
		return r.resp
	case <-time.After(p.timeout):
		w.kill()
		p.slots <- nil
		return &Resp{Crash: "timeout"}
	}
}
