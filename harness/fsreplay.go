package main

// C06: behaviours of the file-system machine (spec/FS.tla) replayed through
// RunFiles in fresh temporary directories.

import (
	"bufio"
	"encoding/json"
	"flag"
	"fmt"
	"os"
	"path/filepath"
	"sort"
	"strings"
	"sync"
	"time"

	"github.com/jmeaster30/vore/libvore"
	"github.com/jmeaster30/vore/libvore/engine"
)

func modeOf(s string) engine.ReplaceMode {
	switch s {
	case "NEW":
		return engine.NEW
	case "OVERWRITE":
		return engine.OVERWRITE
	}
	return engine.NOTHING
}

// op "files": Arg = {files:[{name,bytes}], order:[name], mode}
func handleFiles(req *Req) *Resp {
	resp := &Resp{Out: Node{}}
	v, err, pan, stack := compileSafe(req.Src)
	if pan != "" {
		resp.CPanic, resp.CStack = pan, stack
		return resp
	}
	if err != nil {
		resp.CErr = err.Error()
		return resp
	}
	dir, e := os.MkdirTemp("", "verif.fs.")
	if e != nil {
		resp.Crash = "harness: " + e.Error()
		return resp
	}
	defer os.RemoveAll(dir)
	for _, f := range nlist(req.Arg, "files") {
		if d := nstr(f, "d"); d != "" {
			os.MkdirAll(filepath.Join(dir, d), 0o755)
		}
		if e := os.WriteFile(filepath.Join(dir, nstr(f, "d"), nstr(f, "name")), nbytes(f, "bytes"), 0o644); e != nil {
			resp.Crash = "harness: " + e.Error()
			return resp
		}
	}
	var names []string
	if arr, ok := req.Arg["order"].([]any); ok {
		for _, x := range arr {
			names = append(names, filepath.Join(dir, x.(string)))
		}
	}
	ms, p, st := runFilesSafe(v, names, modeOf(nstr(req.Arg, "mode")))
	if p != "" {
		resp.Out["panic"] = p + " @ " + st
		return resp
	}
	// a Run on a text afterwards is a search in memory: whatever mode the files were run in, it touches no file
	// (working directory = the case's directory, so that a stray file would be seen below)
	if old, e := os.Getwd(); e == nil && os.Chdir(dir) == nil {
		_, p2, st2, _, _ := runSafe(v, "ab abc\nba", 0)
		os.Chdir(old)
		if p2 != "" {
			resp.Out["panic"] = "Run(text) after RunFiles: " + p2 + " @ " + st2
			return resp
		}
	}
	var fsl []Node
	filepath.Walk(dir, func(p string, info os.FileInfo, err error) error {
		if err != nil || info.IsDir() {
			return nil
		}
		rel, _ := filepath.Rel(dir, p)
		b, _ := os.ReadFile(p)
		d := filepath.Dir(rel)
		if d == "." {
			d = ""
		}
		fsl = append(fsl, Node{"d": d, "name": filepath.Base(rel), "bytes": bytesJSON(b)})
		return nil
	})
	resp.Out["fs"] = fsl
	pm := projMatches(ms)
	for i := range pm {
		pm[i].File = strings.TrimPrefix(pm[i].File, dir+"/")
	}
	resp.Out["ms"] = pm
	return resp
}

// op "names": Arg = {files:[{path,bytes}], dirs:[path], order:[path]}: RunFiles with
// processFilenames = true, in a fresh working directory, on relative paths
func handleNames(req *Req) *Resp {
	resp := &Resp{Out: Node{}}
	v, err, pan, stack := compileSafe(req.Src)
	if pan != "" {
		resp.CPanic, resp.CStack = pan, stack
		return resp
	}
	if err != nil {
		resp.CErr = err.Error()
		return resp
	}
	dir, e := os.MkdirTemp("", "verif.names.")
	if e != nil {
		resp.Crash = "harness: " + e.Error()
		return resp
	}
	defer os.RemoveAll(dir)
	old, _ := os.Getwd()
	if e := os.Chdir(dir); e != nil {
		resp.Crash = "harness: " + e.Error()
		return resp
	}
	defer os.Chdir(old)
	if arr, ok := req.Arg["dirs"].([]any); ok {
		for _, x := range arr {
			os.MkdirAll(string(anyBytes(x)), 0o755)
		}
	}
	for _, f := range nlist(req.Arg, "files") {
		if e := os.WriteFile(string(nbytes(f, "path")), nbytes(f, "bytes"), 0o644); e != nil {
			resp.Crash = "harness: " + e.Error()
			return resp
		}
	}
	var names []string
	if arr, ok := req.Arg["order"].([]any); ok {
		for _, x := range arr {
			names = append(names, string(anyBytes(x)))
		}
	}
	// the engine reports failed renames on stderr: keep the worker's protocol stream clean
	ms, p, st := runNamesSafe(v, names)
	if p != "" {
		resp.Out["panic"] = p + " @ " + st
		return resp
	}
	var fsl []Node
	filepath.Walk(".", func(p string, info os.FileInfo, err error) error {
		if err != nil || info.IsDir() {
			return nil
		}
		b, _ := os.ReadFile(p)
		fsl = append(fsl, Node{"path": bytesJSON([]byte(filepath.ToSlash(p))), "bytes": bytesJSON(b)})
		return nil
	})
	resp.Out["fs"] = fsl
	resp.Out["ms"] = projMatches(ms)
	return resp
}

func runNamesSafe(v *libvore.Vore, files []string) (ms engine.Matches, pan string, stack string) {
	defer func() {
		if r := recover(); r != nil {
			pan = fmt.Sprint(r)
			stack = shortStack()
		}
	}()
	ms = v.RunFiles(files, engine.NEW, true)
	return
}

func init() {
	opHandlers["names"] = handleNames
	opHandlers["files"] = handleFiles
	subcommands["replayfs"] = replayFSMain
}

type fsExp struct {
	ID int    `json:"id"`
	FS []Node `json:"fs"`
	Ms []Node `json:"ms"`
}

// excerpt shows a (long) content around its first difference from b
func excerpt(a, b string) string {
	if len(a) <= 60 {
		return fmt.Sprintf("%q", a)
	}
	i := 0
	for i < len(a) && i < len(b) && a[i] == b[i] {
		i++
	}
	lo, hi := i-10, i+30
	if lo < 0 {
		lo = 0
	}
	if hi > len(a) {
		hi = len(a)
	}
	return fmt.Sprintf("(%d bytes, first difference at %d) ...%q...", len(a), i, a[lo:hi])
}

func fsMap(l []Node) map[string]string {
	out := map[string]string{}
	for _, f := range l {
		if _, ok := f["path"]; ok {
			out[string(nbytes(f, "path"))] = string(nbytes(f, "bytes"))
			continue
		}
		out[nstr(f, "d")+"/"+nstr(f, "name")] = string(nbytes(f, "bytes"))
	}
	return out
}

func replayFSMain(args []string) int {
	fs := flag.NewFlagSet("replayfs", flag.ExitOnError)
	prop := fs.String("property", "C06", "")
	casesPath := fs.String("cases", "", "")
	expPath := fs.String("expect", "", "")
	reportPath := fs.String("report", "", "")
	replayDir := fs.String("replaydir", "", "")
	workers := fs.Int("workers", 16, "")
	namesMode := fs.Bool("names", false, "cases of spec/NamesFS.tla: RunFiles with processFilenames")
	fs.Parse(args)
	start := time.Now()
	cases, _, err := loadCases(*casesPath)
	if err != nil {
		fmt.Fprintln(os.Stderr, err)
		return 2
	}
	ef, err := os.Open(*expPath)
	if err != nil {
		fmt.Fprintln(os.Stderr, err)
		return 2
	}
	defer ef.Close()
	rep := &Report{Property: *prop, Family: "fs", OtherDiffs: map[string]int{}, Violations: []Violation{}, Samples: []any{}, Undecided: []string{}}
	var mu sync.Mutex
	pool := NewPool(*workers, 30*time.Second)
	defer pool.Close()
	add := func(v Violation) {
		mu.Lock()
		defer mu.Unlock()
		rep.NViolations++
		if len(rep.Violations) < 25 {
			if *replayDir != "" {
				os.MkdirAll(*replayDir, 0o755)
				p := filepath.Join(*replayDir, hashOf([]any{v.Src, v.Case, v.Kind})+".json")
				b, _ := json.MarshalIndent(v, "", " ")
				os.WriteFile(p, b, 0o644)
				v.Replay = p
			}
			rep.Violations = append(rep.Violations, v)
		}
	}
	sem := make(chan struct{}, *workers)
	var wg sync.WaitGroup
	sc := bufio.NewScanner(ef)
	sc.Buffer(make([]byte, 1<<20), 64<<20)
	for sc.Scan() {
		line := strings.TrimSpace(sc.Text())
		if line == "" {
			continue
		}
		var e fsExp
		if err := json.Unmarshal([]byte(line), &e); err != nil {
			fmt.Fprintln(os.Stderr, "bad expectation:", err)
			return 2
		}
		c, ok := cases[e.ID]
		if !ok {
			fmt.Fprintln(os.Stderr, "unknown case", e.ID)
			return 2
		}
		wg.Add(1)
		sem <- struct{}{}
		go func(e fsExp, c Node) {
			defer wg.Done()
			defer func() { <-sem }()
			src := renderProgram(c)
			var resp *Resp
			if *namesMode {
				resp = pool.Do(&Req{Op: "names", Src: src, Arg: Node{"files": c["files"], "order": c["order"], "dirs": c["dirs"]}})
			} else {
				resp = pool.Do(&Req{Op: "files", Src: src, Arg: Node{"files": c["files"], "order": c["order"], "mode": c["mode"]}})
			}
			mu.Lock()
			rep.Evaluations++
			rep.Programs++
			if len(e.Ms) > 0 {
				rep.Nontrivial++
			}
			if len(rep.Samples) < 3 {
				rep.Samples = append(rep.Samples, Node{"src": src, "files": c["files"], "mode": c["mode"], "expect_fs": e.FS})
			}
			mu.Unlock()
			mk := func(kind, detail string, got any) Violation {
				return Violation{Property: *prop, Kind: kind, Sig: kind, Detail: detail, Src: src, Case: c, Expect: Node{"fs": e.FS, "ms": e.Ms}, Got: got}
			}
			if resp.Crash != "" {
				add(mk("crash", "worker "+resp.Crash, nil))
				return
			}
			if resp.CPanic != "" || resp.CErr != "" {
				add(mk("reject", "Compile failed on a scope program: "+resp.CPanic+resp.CErr, nil))
				return
			}
			if p, ok := resp.Out["panic"].(string); ok {
				add(mk("panic", "RunFiles panicked: "+p, nil))
				return
			}
			got := fsMap(nlist(resp.Out, "fs"))
			want := fsMap(e.FS)
			var names []string
			for n := range got {
				names = append(names, n)
			}
			for n := range want {
				if _, ok := got[n]; !ok {
					names = append(names, n)
				}
			}
			sort.Strings(names)
			for _, n := range names {
				g, gok := got[n]
				w, wok := want[n]
				if gok != wok || g != w {
					add(mk("fs", fmt.Sprintf("file %q: expected %v %s, got %v %s (mode %s)", n, wok, excerpt(w, g), gok, excerpt(g, w), nstr(c, "mode")), resp.Out))
					return
				}
			}
			gms := nlist(resp.Out, "ms")
			if len(gms) != len(e.Ms) {
				add(mk("spans", fmt.Sprintf("expected %d matches, got %d", len(e.Ms), len(gms)), resp.Out))
				return
			}
			for i := range gms {
				g, w := gms[i], e.Ms[i]
				if nint(g, "s") != nint(w, "s") || nint(g, "e") != nint(w, "e") || nint(g, "n") != nint(w, "n") {
					add(mk("spans", fmt.Sprintf("match %d differs", i), resp.Out))
					return
				}
				if nbool(w, "hasr") && string(nbytes(g, "repl")) != string(nbytes(w, "repl")) {
					add(mk("repl", fmt.Sprintf("match %d: replacement differs", i), resp.Out))
					return
				}
				if *namesMode && nstr(g, "file") != string(nbytes(w, "file")) {
					add(mk("file", fmt.Sprintf("match %d: reported for %q, expected %q", i, nstr(g, "file"), string(nbytes(w, "file"))), resp.Out))
					return
				}
			}
		}(e, c)
	}
	wg.Wait()
	rep.WallS = time.Since(start).Seconds()
	b, _ := json.MarshalIndent(rep, "", " ")
	os.WriteFile(*reportPath, b, 0o644)
	return 0
}
