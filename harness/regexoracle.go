package main

// Validation of the C14 oracle (not a verdict): on the back-reference-free
// part of the scope the specification's conventional regex semantics is
// compared with Go's regexp (leftmost-first), evaluated position by
// position with the left context preserved: \A(?s:.{p})((?m:re)).

import (
	"bufio"
	"encoding/json"
	"flag"
	"fmt"
	"os"
	"regexp"
	"strings"
)

func goRegexScan(re string, text []byte) ([][2]int, error) {
	var out [][2]int
	from := 0
	cache := map[int]*regexp.Regexp{}
	for from < len(text) {
		r, ok := cache[from]
		if !ok {
			var err error
			r, err = regexp.Compile(fmt.Sprintf(`\A(?s:.{%d})((?m:%s))`, from, re))
			if err != nil {
				return nil, err
			}
			cache[from] = r
		}
		loc := r.FindSubmatchIndex(text)
		if loc != nil && loc[3] > from {
			out = append(out, [2]int{from, loc[3]})
			from = loc[3]
		} else {
			from++
		}
	}
	return out, nil
}

func regexOracleMain(args []string) int {
	fs := flag.NewFlagSet("regexoracle", flag.ExitOnError)
	casesPath := fs.String("cases", "", "")
	expPath := fs.String("expect", "", "")
	fs.Parse(args)
	cases, _, err := loadCases(*casesPath)
	if err != nil {
		fmt.Fprintln(os.Stderr, err)
		return 2
	}
	f, err := os.Open(*expPath)
	if err != nil {
		fmt.Fprintln(os.Stderr, err)
		return 2
	}
	defer f.Close()
	checked, skipped, bad := 0, 0, 0
	var examples []string
	sc := bufio.NewScanner(f)
	sc.Buffer(make([]byte, 1<<20), 256<<20)
	for sc.Scan() {
		var ec ExpCase
		if json.Unmarshal(sc.Bytes(), &ec) != nil {
			continue
		}
		c := cases[ec.ID]
		re := string(nbytes(c, "resrc"))
		if strings.Contains(re, `\1`) || strings.Contains(re, `\2`) || strings.Contains(re, `\3`) || strings.Contains(re, `\k`) {
			skipped++
			continue
		}
		re = strings.ReplaceAll(re, "(?<", "(?P<")
		for _, r := range ec.R {
			text := []byte(toText(r.T))
			got, err := goRegexScan(re, text)
			if err != nil {
				skipped++
				break
			}
			checked++
			same := len(got) == len(r.Ms)
			for i := 0; same && i < len(got); i++ {
				same = got[i][0] == r.Ms[i].S && got[i][1] == r.Ms[i].E
			}
			if !same {
				bad++
				if len(examples) < 5 {
					examples = append(examples, fmt.Sprintf("%q on %q: spec %v, Go regexp %v", re, text, r.Ms, got))
				}
			}
		}
	}
	b, _ := json.Marshal(Node{"checked": checked, "skipped_regexes": skipped, "disagreements": bad, "examples": examples})
	fmt.Println(string(b))
	return 0
}

func init() { subcommands["regexoracle"] = regexOracleMain }
