package main

// C07: record the seek/read histories the engine issues on real files
// (hook H2) for validation against spec/ReaderTrace.tla.

import (
	"bufio"
	"encoding/json"
	"flag"
	"fmt"
	"os"
	"path/filepath"

	"github.com/jmeaster30/vore/libvore/engine"
	"github.com/jmeaster30/vore/libvore/files"
)

func patternBytes(pat []byte, n int) []byte {
	out := make([]byte, n)
	for i := range out {
		out[i] = pat[i%len(pat)]
	}
	return out
}

// readerTraceMain: for each size and program, write the file, run the
// program on it with RunFiles, record reader events of the buffered reader.
// Also compares RunFiles(file) with Run(bytes) (relational half of C07).
func readerTraceMain(args []string) int {
	fs := flag.NewFlagSet("readertrace", flag.ExitOnError)
	planPath := fs.String("plan", "", "json: {pattern:[bytes], runs:[{size, src, mode}]}")
	out := fs.String("out", "", "trace ndjson output")
	report := fs.String("report", "", "report json")
	fs.Parse(args)
	var plan struct {
		Pattern []int `json:"pattern"`
		Runs    []struct {
			Size int    `json:"size"`
			Src  string `json:"src"`
			Mode string `json:"mode"`
		} `json:"runs"`
	}
	b, err := os.ReadFile(*planPath)
	if err != nil || json.Unmarshal(b, &plan) != nil {
		fmt.Fprintln(os.Stderr, "readertrace: bad plan")
		return 2
	}
	pat := make([]byte, len(plan.Pattern))
	for i, x := range plan.Pattern {
		pat[i] = byte(x)
	}
	tf, _ := os.Create(*out)
	defer tf.Close()
	tw := bufio.NewWriterSize(tf, 1<<20)
	enc := json.NewEncoder(tw)
	dir, _ := os.MkdirTemp("", "verif.rt.")
	defer os.RemoveAll(dir)
	type runRep struct {
		Size    int    `json:"size"`
		Src     string `json:"src"`
		Events  int    `json:"events"`
		Matches int    `json:"matches"`
		Diff    string `json:"diff,omitempty"`
		Panic   string `json:"panic,omitempty"`
		Windows int    `json:"recentres"`
	}
	var reps []runRep
	total := 0
	for _, r := range plan.Runs {
		content := patternBytes(pat, r.Size)
		fn := filepath.Join(dir, "f.txt")
		os.WriteFile(fn, content, 0o644)
		os.Remove(fn + ".vored")
		v, cerr, pan, _ := compileSafe(r.Src)
		if cerr != nil || pan != "" {
			fmt.Fprintln(os.Stderr, "readertrace: plan program does not compile:", r.Src, cerr, pan)
			return 2
		}
		rr := runRep{Size: r.Size, Src: r.Src}
		enc.Encode(Node{"ev": "open", "n": r.Size, "pat": plan.Pattern})
		var target *files.Reader
		lastMin := int64(-2)
		files.VerifReaderHook = func(e files.VerifReaderEvent) {
			if e.Min < 0 {
				return // not a buffered file (in-memory readers of the same run)
			}
			if target == nil {
				target = e.Reader
			}
			if e.Reader != target {
				return
			}
			if e.Min != lastMin {
				rr.Windows++
				lastMin = e.Min
			}
			rr.Events++
			enc.Encode(Node{"ev": e.Op, "arg": e.Arg, "off": e.Off, "len": e.Len, "first": e.First, "last": e.Last,
				"sum": e.Sum, "size": e.Size, "min": e.Min, "max": e.Max, "cur": e.Cur})
		}
		fms, fp, _ := runFilesSafe(v, []string{fn}, modeOf(r.Mode))
		files.VerifReaderHook = nil
		if fp != "" {
			rr.Panic = fp
		}
		sms, sp, _, _, _ := runSafe(v, string(content), 0)
		if sp != "" && rr.Panic == "" {
			rr.Panic = "string run: " + sp
		}
		rr.Matches = len(sms)
		if rr.Panic == "" {
			a, bm := projMatches(sms), projMatches(fms)
			if msg := sameMatches(a, bm); msg != "" {
				rr.Diff = msg
			}
			single := true // one command: its matches are in increasing order
			for i := 1; i < len(sms); i++ {
				if sms[i].Offset.Start < sms[i-1].Offset.End {
					single = false
				}
			}
			if r.Mode == "NEW" && single {
				// the written file must be the splice computed from the in-memory run
				got, _ := os.ReadFile(fn + ".vored")
				want := spliceOf(content, sms)
				if string(got) != string(want) {
					rr.Diff = "spliced output differs from the splice of the in-memory result"
				}
			}
		}
		total += rr.Events
		reps = append(reps, rr)
	}
	tw.Flush()
	rb, _ := json.MarshalIndent(Node{"runs": reps, "events": total}, "", " ")
	os.WriteFile(*report, rb, 0o644)
	return 0
}

func spliceOf(content []byte, ms engine.Matches) []byte {
	var out []byte
	last := 0
	for _, m := range ms {
		out = append(out, content[last:m.Offset.Start]...)
		out = append(out, []byte(m.Replacement.GetValueOrDefault(""))...)
		last = m.Offset.End
	}
	out = append(out, content[last:]...)
	return out
}

func init() { subcommands["readertrace"] = readerTraceMain }
