package main

// C08: Compile is total.  Sources come from TLC (enumerated strings over the
// lexer's character classes, regex bodies, token mutants of the corpus) and
// from seeded generators; each is compiled in a worker subprocess.

import (
	"bufio"
	"encoding/json"
	"flag"
	"fmt"
	"os"
	"path/filepath"
	"strings"
	"sync"
	"time"

	"github.com/jmeaster30/vore/libvore/ast"
)

type compileOne struct {
	Panic   string `json:"panic,omitempty"`
	Stack   string `json:"stack,omitempty"`
	Err     string `json:"err,omitempty"`
	ErrT    string `json:"errt,omitempty"`
	BothNil bool   `json:"bothnil,omitempty"`
	BothSet bool   `json:"bothset,omitempty"`
	Hole    string `json:"hole,omitempty"`
	RunPan  string `json:"runpan,omitempty"`
	OK      bool   `json:"ok"`
}

func compileVerdict(src string, probe bool) compileOne {
	var out compileOne
	v, err, pan, stack := compileSafe(src)
	if pan != "" {
		out.Panic, out.Stack = pan, stack
		return out
	}
	if err != nil {
		msg, mp := errMessage(err)
		if mp != "" {
			out.Panic = "Error() panicked: " + mp
			return out
		}
		out.Err = msg
		out.ErrT = errType(err)
		if v != nil {
			out.BothSet = true
		}
		return out
	}
	if v == nil {
		out.BothNil = true
		return out
	}
	out.OK = true
	// no holes left by a failed parse: walk the tree the parser built
	func() {
		defer func() {
			if r := recover(); r != nil {
				out.Hole = fmt.Sprint("walk panic: ", r)
			}
		}()
		a, perr := ast.ParseReader(strings.NewReader(src))
		if perr != nil {
			out.Hole = "second parse failed: " + perr.Error()
			return
		}
		if _, e := projAst(a); e != nil {
			out.Hole = e.Error()
		}
	}()
	if probe && out.Hole == "" {
		for _, t := range []string{"a", "ab 12\nAb", ""} {
			if _, p, _, _, over := runSafe(v, t, 200000); p != "" && !over {
				out.RunPan = p
				break
			}
		}
	}
	return out
}

func handleCompile(req *Req) *Resp {
	resp := &Resp{Out: Node{}}
	var res []compileOne
	srcs, _ := req.Arg["srcs"].([]any)
	probe := nbool(req.Arg, "probe")
	for _, s := range srcs {
		res = append(res, compileVerdict(s.(string), probe))
	}
	b, _ := json.Marshal(res)
	var anyRes any
	json.Unmarshal(b, &anyRes)
	resp.Out["res"] = anyRes
	return resp
}

func init() {
	opHandlers["compile"] = handleCompile
	subcommands["compilecheck"] = compileCheckMain
}

type srcLine struct {
	Src   []int    `json:"src"`   // bytes
	Toks  []string `json:"toks"`  // or tokens (joined with blanks)
	Text  string   `json:"text"`  // or literal text
	OK    *bool    `json:"ok"`    // the lexer specification's verdict (optional)
	Kind  string   `json:"kind"`
	Wraps []string `json:"-"`
}

func compileCheckMain(args []string) int {
	fs := flag.NewFlagSet("compilecheck", flag.ExitOnError)
	in := fs.String("in", "", "ndjson of sources")
	wraps := fs.String("wraps", "bare", "comma list: bare, findall (find all <s>), regex (find all @/<s>/)")
	reportPath := fs.String("report", "", "")
	replayDir := fs.String("replaydir", "", "")
	workers := fs.Int("workers", 16, "")
	family := fs.String("family", "", "")
	timeoutS := fs.Int("timeout", 20, "wall clock per batch (s)")
	fs.Parse(args)
	start := time.Now()
	f, err := os.Open(*in)
	if err != nil {
		fmt.Fprintln(os.Stderr, err)
		return 2
	}
	defer f.Close()
	type item struct {
		src   string
		lexok *bool
		wrap  string
	}
	var items []item
	sc := bufio.NewScanner(f)
	sc.Buffer(make([]byte, 1<<20), 64<<20)
	for sc.Scan() {
		line := strings.TrimSpace(sc.Text())
		if line == "" {
			continue
		}
		var sl srcLine
		if err := json.Unmarshal([]byte(line), &sl); err != nil {
			fmt.Fprintln(os.Stderr, "bad line:", err)
			return 2
		}
		var s string
		switch {
		case sl.Toks != nil:
			s = strings.Join(sl.Toks, " ")
		case sl.Text != "":
			s = sl.Text
		default:
			s = toText(sl.Src)
		}
		for _, w := range strings.Split(*wraps, ",") {
			switch w {
			case "bare":
				items = append(items, item{s, sl.OK, w})
			case "findall":
				items = append(items, item{"find all " + s, nil, w})
			case "regex":
				items = append(items, item{"find all @/" + s + "/", nil, w})
			}
		}
	}
	rep := &Report{Property: "C08", Family: *family, OtherDiffs: map[string]int{}, Violations: []Violation{}, Samples: []any{}, Undecided: []string{}}
	var mu sync.Mutex
	pool := NewPool(*workers, time.Duration(*timeoutS)*time.Second)
	defer pool.Close()
	perSig := map[string]int{}
	add := func(kind, sig, detail, src string) {
		mu.Lock()
		defer mu.Unlock()
		rep.NViolations++
		perSig[sig]++
		if perSig[sig] <= 5 {
			v := Violation{Property: "C08", Kind: kind, Sig: sig, Detail: detail, Src: src, Case: Node{"src": src, "bytes": bytesJSON([]byte(src))}}
			if *replayDir != "" {
				os.MkdirAll(*replayDir, 0o755)
				p := filepath.Join(*replayDir, hashOf([]any{src, kind})+".json")
				b, _ := json.MarshalIndent(v, "", " ")
				os.WriteFile(p, b, 0o644)
				v.Replay = p
			}
			rep.Violations = append(rep.Violations, v)
		}
	}
	judge := func(it item, r compileOne) {
		mu.Lock()
		rep.Evaluations++
		if r.OK {
			rep.Programs++
		} else {
			rep.Rejected++
		}
		if len(rep.Samples) < 4 && rep.Evaluations%997 == 1 {
			rep.Samples = append(rep.Samples, Node{"src": it.src, "accepted": r.OK, "error": r.ErrT})
		}
		mu.Unlock()
		switch {
		case r.Panic != "":
			site := r.Stack
			if i := strings.Index(site, " | "); i > 0 {
				site = site[:i]
			}
			add("cpanic", "cpanic:"+site, "Compile panicked: "+r.Panic+" @ "+r.Stack, it.src)
		case r.BothNil:
			add("bothnil", "bothnil", "Compile returned neither a program nor an error", it.src)
		case r.BothSet:
			add("bothset", "bothset", "Compile returned both a program and an error", it.src)
		case r.OK && r.Hole != "":
			add("hole", "hole", "accepted program contains a hole: "+r.Hole, it.src)
		}
		if r.RunPan != "" {
			mu.Lock()
			rep.OtherDiffs["accepted_program_panics_at_run"]++
			if len(rep.Undecided) < 5 {
				rep.Undecided = append(rep.Undecided, "run panic: "+it.src+" :: "+r.RunPan)
			}
			mu.Unlock()
		}
		if it.lexok != nil && r.Panic == "" {
			lexErr := r.ErrT == "LexError"
			mu.Lock()
			if lexErr == *it.lexok {
				rep.OtherDiffs["lexer_verdict_differs_from_spec"]++
				if len(rep.Undecided) < 8 {
					rep.Undecided = append(rep.Undecided, fmt.Sprintf("lexer spec says ok=%v, code gives %q for %q", *it.lexok, r.ErrT, it.src))
				}
			} else {
				rep.OtherDiffs["lexer_verdict_agrees_with_spec"]++
			}
			mu.Unlock()
		}
	}
	const batch = 200
	// once a few sources are confirmed not to return, the verdict is in: the
	// rest of the scope is not worth minutes of waiting per source
	stopAfterHangs := 4
	single := NewPool(*workers, 6*time.Second)
	defer single.Close()
	hangs := func() int {
		mu.Lock()
		defer mu.Unlock()
		return perSig["hang"] + perSig["crash"]
	}
	sem := make(chan struct{}, *workers)
	var wg sync.WaitGroup
	for i := 0; i < len(items); i += batch {
		j := i + batch
		if j > len(items) {
			j = len(items)
		}
		wg.Add(1)
		sem <- struct{}{}
		go func(chunk []item) {
			defer wg.Done()
			defer func() { <-sem }()
			if hangs() >= stopAfterHangs {
				mu.Lock()
				rep.OtherDiffs["skipped_after_confirmed_hangs"] += len(chunk)
				mu.Unlock()
				return
			}
			srcs := make([]any, len(chunk))
			for k, it := range chunk {
				srcs[k] = it.src
			}
			resp := pool.Do(&Req{Op: "compile", Arg: Node{"srcs": srcs, "probe": true}})
			if resp.Crash == "" {
				res, _ := resp.Out["res"].([]any)
				for k, it := range chunk {
					var r compileOne
					if k < len(res) {
						b, _ := json.Marshal(res[k])
						json.Unmarshal(b, &r)
					}
					judge(it, r)
				}
				return
			}
			// a source in this batch hangs or kills the worker: isolate it
			for _, it := range chunk {
				if hangs() >= stopAfterHangs {
					mu.Lock()
					rep.OtherDiffs["skipped_after_confirmed_hangs"]++
					mu.Unlock()
					continue
				}
				r1 := single.Do(&Req{Op: "compile", Arg: Node{"srcs": []any{it.src}, "probe": true}})
				if r1.Crash != "" {
					// confirm once more alone with a fresh worker and a generous limit before calling it
					r2 := pool.Do(&Req{Op: "compile", Arg: Node{"srcs": []any{it.src}, "probe": false}})
					if r2.Crash != "" {
						kind := "crash"
						if r2.Crash == "timeout" {
							kind = "hang"
						}
						mu.Lock()
						rep.Evaluations++
						mu.Unlock()
						add(kind, kind, "Compile did not return ("+r2.Crash+")", it.src)
						continue
					}
					r1 = r2
				}
				res, _ := r1.Out["res"].([]any)
				var r compileOne
				if len(res) > 0 {
					b, _ := json.Marshal(res[0])
					json.Unmarshal(b, &r)
				}
				judge(it, r)
			}
		}(items[i:j])
	}
	wg.Wait()
	rep.Nontrivial = rep.Rejected // refined by the driver
	rep.WallS = time.Since(start).Seconds()
	b, _ := json.MarshalIndent(rep, "", " ")
	os.WriteFile(*reportPath, b, 0o644)
	return 0
}
