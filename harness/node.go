package main

// The interchange AST: the same records the TLA+ specification uses
// (spec/Semantics.tla, spec/Expr.tla), as generic JSON objects, plus the
// renderer that turns a case into vore concrete syntax.

import (
	"os"
	"unicode/utf8"
	"encoding/json"
	"fmt"
	"sort"
	"strings"
)

type Node = map[string]any

func nstr(n Node, k string) string {
	if v, ok := n[k].(string); ok {
		return v
	}
	return ""
}

func nbool(n Node, k string) bool {
	if v, ok := n[k].(bool); ok {
		return v
	}
	return false
}

func nint(n Node, k string) int {
	switch v := n[k].(type) {
	case float64:
		return int(v)
	case int:
		return v
	case json.Number:
		i, _ := v.Int64()
		return int(i)
	}
	return 0
}

func nnode(n Node, k string) Node {
	if v, ok := n[k].(map[string]any); ok {
		return v
	}
	return nil
}

func nlist(n Node, k string) []Node {
	arr, ok := n[k].([]any)
	if !ok {
		if a2, ok2 := n[k].([]Node); ok2 {
			return a2
		}
		return nil
	}
	out := make([]Node, 0, len(arr))
	for _, x := range arr {
		if m, ok := x.(map[string]any); ok {
			out = append(out, m)
		}
	}
	return out
}

// byte strings travel as arrays of ints
func nbytes(n Node, k string) []byte {
	return anyBytes(n[k])
}

func anyBytes(v any) []byte {
	switch a := v.(type) {
	case []any:
		out := make([]byte, len(a))
		for i, x := range a {
			switch y := x.(type) {
			case float64:
				out[i] = byte(int(y))
			case int:
				out[i] = byte(y)
			}
		}
		return out
	case []int:
		out := make([]byte, len(a))
		for i, x := range a {
			out[i] = byte(x)
		}
		return out
	case []byte:
		return a
	case string:
		return []byte(a)
	}
	return nil
}

func bytesJSON(b []byte) []int {
	out := make([]int, len(b))
	for i, c := range b {
		out[i] = int(c)
	}
	return out
}

// ---------------------------------------------------------------- rendering

// quote renders a byte string as a vore string literal.  style 0: single
// quotes, printable characters raw, everything else \xHH.
func quote(b []byte) string {
	var sb strings.Builder
	sb.WriteByte('\'')
	rawHigh := utf8.Valid(b) // the lexer reads characters: bytes >= 0x80 can only be written as themselves, in valid UTF-8
	if !rawHigh {
		for _, c := range b {
			if c >= 0x80 {
				// no source text denotes this literal: a scope error, never a verdict
				fmt.Fprintf(os.Stderr, "harness: literal %v is not valid UTF-8 and cannot be written in a source\n", b)
				os.Exit(2)
			}
		}
	}
	for _, c := range b {
		switch {
		case c >= 0x80 && rawHigh:
			sb.WriteByte(c)
		case c == '\'':
			sb.WriteString("\\'")
		case c == '\\':
			sb.WriteString("\\\\")
		case c >= 32 && c < 127:
			sb.WriteByte(c)
		default:
			sb.WriteString(fmt.Sprintf("\\x%02x", c))
		}
	}
	sb.WriteByte('\'')
	return sb.String()
}

var anchorWords = map[string]string{
	"filestart": "file start", "fileend": "file end",
	"linestart": "line start", "lineend": "line end",
	"wordstart": "word start", "wordend": "word end",
}

func renderSeq(es []Node) string {
	parts := make([]string, len(es))
	for i, e := range es {
		parts[i] = renderExpr(e)
	}
	return strings.Join(parts, " ")
}

func quant(min, max int) string {
	switch {
	case min == 0 && max == 1:
		return "maybe"
	case max == -1:
		return fmt.Sprintf("at least %d", min)
	case min == 0:
		return fmt.Sprintf("at most %d", max)
	case min == max:
		return fmt.Sprintf("exactly %d", min)
	default:
		return fmt.Sprintf("between %d and %d", min, max)
	}
}

func renderExpr(n Node) string {
	switch nstr(n, "k") {
	case "lit":
		s := ""
		if nbool(n, "neg") {
			s += "not "
		}
		if nbool(n, "ci") {
			s += "caseless "
		}
		return s + quote(nbytes(n, "s"))
	case "cls":
		if nbool(n, "neg") {
			return "not " + nstr(n, "c")
		}
		return nstr(n, "c")
	case "anc":
		if nbool(n, "neg") {
			return "not " + anchorWords[nstr(n, "c")]
		}
		return anchorWords[nstr(n, "c")]
	case "whole":
		if nbool(n, "neg") {
			return "not whole " + nstr(n, "c")
		}
		return "whole " + nstr(n, "c")
	case "seq":
		return "(" + renderSeq(nlist(n, "es")) + ")"
	case "or":
		return renderExpr(nnode(n, "l")) + " or " + renderExpr(nnode(n, "r"))
	case "in":
		items := nlist(n, "items")
		parts := make([]string, len(items))
		for i, it := range items {
			parts[i] = renderExpr(it)
		}
		s := "in " + strings.Join(parts, ", ")
		if nbool(n, "neg") {
			s = "not " + s
		}
		return s
	case "rng":
		return quote(nbytes(n, "a")) + " to " + quote(nbytes(n, "b"))
	case "loop":
		s := quant(nint(n, "min"), nint(n, "max")) + " " + renderExpr(nnode(n, "body"))
		if nbool(n, "few") {
			s += " fewest"
		}
		if nm := nstr(n, "name"); nm != "" {
			s += " named " + nm
		}
		return s
	case "cap":
		return renderExpr(nnode(n, "body")) + " = " + nstr(n, "name")
	case "sub":
		return "{" + renderSeq(nlist(n, "es")) + "} = " + nstr(n, "name")
	case "ref":
		return nstr(n, "name")
	case "re":
		return "@/" + nstr(n, "src") + "/"
	}
	return "<?" + nstr(n, "k") + "?>"
}

func renderAmount(a Node) string {
	switch nstr(a, "k") {
	case "all", "":
		return "all"
	case "top":
		return fmt.Sprintf("top %d", nint(a, "n"))
	case "take":
		return fmt.Sprintf("take %d", nint(a, "n"))
	case "skip":
		return fmt.Sprintf("skip %d", nint(a, "s"))
	case "skiptake":
		return fmt.Sprintf("skip %d take %d", nint(a, "s"), nint(a, "t"))
	case "last":
		return fmt.Sprintf("last %d", nint(a, "n"))
	}
	return "all"
}

// process language ------------------------------------------------------

// documented levels: * / % > + - > comparisons > and/or.  The code splits the
// comparisons into two sub-levels (== != below < > <= >=); the property treats
// them as one class, so the renderer never relies on the relative order of the
// two sub-classes: a comparison directly under a comparison of the other
// sub-class is always parenthesised.
var binPrec = map[string]int{"and": 1, "or": 1, "==": 3, "!=": 3, "<": 3, ">": 3, "<=": 3, ">=": 3, "+": 7, "-": 7, "*": 9, "/": 9, "%": 9}

func cmpClass(op string) int {
	switch op {
	case "==", "!=":
		return 1
	case "<", ">", "<=", ">=":
		return 2
	}
	return 0
}

func mixedCmp(parent string, child Node) bool {
	if nstr(child, "k") != "bin" {
		return false
	}
	a, b := cmpClass(parent), cmpClass(nstr(child, "op"))
	return a != 0 && b != 0 && a != b
}

// renderPExpr renders a process expression.  full=true puts parentheses
// around every operator application; full=false uses the minimal
// parentheses implied by the documented precedence levels and left
// associativity (as parsed by the code's Pratt tables).
func renderPExpr(e Node, full bool) string {
	return renderPExprPrec(e, full, 0, false)
}

func pexprLevel(e Node) int {
	switch nstr(e, "k") {
	case "bin":
		return binPrec[nstr(e, "op")]
	case "un":
		if nstr(e, "op") == "not" {
			return 11
		}
		return 12
	}
	return 100
}

func renderToks(toks []Node) string {
	parts := make([]string, 0, len(toks))
	for _, t := range toks {
		switch nstr(t, "t") {
		case "num":
			parts = append(parts, fmt.Sprintf("%d", nint(t, "n")))
		case "str":
			parts = append(parts, quote(nbytes(t, "s")))
		case "w", "op":
			parts = append(parts, nstr(t, "v"))
		case "lp":
			parts = append(parts, "(")
		case "rp":
			parts = append(parts, ")")
		}
	}
	return strings.Join(parts, " ")
}

// stripToks removes the concrete-syntax wrappers [k:"toks"] from a tree
func stripToks(v any) any {
	switch x := v.(type) {
	case map[string]any:
		if nstr(x, "k") == "toks" {
			return stripToks(x["e"])
		}
		out := map[string]any{}
		for k, e := range x {
			out[k] = stripToks(e)
		}
		return out
	case []any:
		out := make([]any, len(x))
		for i, e := range x {
			out[i] = stripToks(e)
		}
		return out
	case []Node:
		out := make([]any, len(x))
		for i, e := range x {
			out[i] = stripToks(e)
		}
		return out
	}
	return v
}

func renderPExprPrec(e Node, full bool, ctx int, right bool) string {
	switch nstr(e, "k") {
	case "toks":
		return renderToks(nlist(e, "toks"))
	case "str":
		return quote(nbytes(e, "v"))
	case "num":
		return fmt.Sprintf("%d", nint(e, "v"))
	case "bool":
		if nbool(e, "v") {
			return "true"
		}
		return "false"
	case "var":
		return nstr(e, "name")
	case "un":
		inner := nnode(e, "e")
		op := nstr(e, "op")
		if full {
			return "(" + op + " " + renderPExprPrec(inner, full, 0, false) + ")"
		}
		// a prefix operator binds tighter than every infix operator: its
		// operand needs parentheses when it is an infix application
		s := renderPExprPrec(inner, full, 0, false)
		if nstr(inner, "k") == "bin" {
			s = "(" + s + ")"
		}
		return op + " " + s
	case "bin":
		op := nstr(e, "op")
		p := binPrec[op]
		l := nnode(e, "l")
		r := nnode(e, "r")
		if full {
			return "(" + renderPExprPrec(l, full, 0, false) + " " + op + " " + renderPExprPrec(r, full, 0, false) + ")"
		}
		ls := renderPExprPrec(l, full, p, false)
		if (nstr(l, "k") == "bin" && pexprLevel(l) < p) || mixedCmp(op, l) {
			ls = "(" + ls + ")"
		}
		rs := renderPExprPrec(r, full, p, true)
		if (nstr(r, "k") == "bin" && pexprLevel(r) <= p) || mixedCmp(op, r) {
			rs = "(" + rs + ")"
		}
		return ls + " " + op + " " + rs
	}
	return "<?pexpr?>"
}

func renderStmts(ss []Node, full bool) string {
	parts := make([]string, len(ss))
	for i, s := range ss {
		parts[i] = renderStmt(s, full)
	}
	return strings.Join(parts, " ")
}

func renderStmt(s Node, full bool) string {
	switch nstr(s, "k") {
	case "set":
		return "set " + nstr(s, "name") + " to " + renderPExpr(nnode(s, "e"), full)
	case "ret":
		return "return " + renderPExpr(nnode(s, "e"), full)
	case "dbg":
		return "debug " + renderPExpr(nnode(s, "e"), full)
	case "if":
		out := "if " + renderPExpr(nnode(s, "c"), full) + " then " + renderStmts(nlist(s, "th"), full)
		if el := nlist(s, "el"); len(el) > 0 {
			out += " else " + renderStmts(el, full)
		}
		return out + " end"
	case "loop":
		return "loop " + renderStmts(nlist(s, "body"), full) + " end"
	case "brk":
		return "break"
	case "cont":
		return "continue"
	}
	return "<?stmt?>"
}

// renderProgram renders a case program: global pattern definitions,
// transforms, then the commands.
func renderProgram(c Node) string {
	// a case may give its source text literally (C16: the spelling matters)
	if sb, ok := c["srcbytes"]; ok {
		return string(anyBytes(sb))
	}
	if st, ok := c["src"].(string); ok {
		return st
	}
	var parts []string
	renderDef := func(d Node) string {
		s := "set " + nstr(d, "name") + " to pattern " + renderSeq(nlist(d, "es"))
		if pred := nlist(d, "pred"); len(pred) > 0 {
			s += " begin " + renderStmts(pred, false) + " end"
		}
		return s
	}
	for _, d := range nlist(c, "defs") {
		parts = append(parts, renderDef(d))
	}
	for _, t := range nlist(c, "trans") {
		parts = append(parts, "set "+nstr(t, "name")+" to transform "+renderStmts(nlist(t, "stmts"), false)+" end")
	}
	for _, cmd := range nlist(c, "cmds") {
		// definitions placed between the commands (a later definition of a name replaces the earlier one from there on)
		for _, d := range nlist(cmd, "defs_before") {
			parts = append(parts, renderDef(d))
		}
		parts = append(parts, renderCommand(cmd))
	}
	return strings.Join(parts, "\n")
}

func renderCommand(cmd Node) string {
	kind := nstr(cmd, "kind")
	if kind == "setmatches" {
		return "set " + nstr(cmd, "name") + " to matches " + renderCommand(nnode(cmd, "cmd"))
	}
	s := kind + " " + renderAmount(nnode(cmd, "amt")) + " " + renderSeq(nlist(cmd, "body"))
	if kind == "replace" {
		var ws []string
		for _, w := range nlist(cmd, "with") {
			if nstr(w, "k") == "str" {
				ws = append(ws, quote(nbytes(w, "s")))
			} else {
				ws = append(ws, nstr(w, "name"))
			}
		}
		s += " with " + strings.Join(ws, " ")
	}
	return s
}

// canonical JSON of a node (sorted keys) for equality and hashing
func canon(v any) string {
	var sb strings.Builder
	canonInto(&sb, v)
	return sb.String()
}

func canonInto(sb *strings.Builder, v any) {
	switch x := v.(type) {
	case map[string]any:
		keys := make([]string, 0, len(x))
		for k := range x {
			keys = append(keys, k)
		}
		sort.Strings(keys)
		sb.WriteByte('{')
		for i, k := range keys {
			if i > 0 {
				sb.WriteByte(',')
			}
			sb.WriteString(fmt.Sprintf("%q:", k))
			canonInto(sb, x[k])
		}
		sb.WriteByte('}')
	case []any:
		sb.WriteByte('[')
		for i, e := range x {
			if i > 0 {
				sb.WriteByte(',')
			}
			canonInto(sb, e)
		}
		sb.WriteByte(']')
	case []Node:
		sb.WriteByte('[')
		for i, e := range x {
			if i > 0 {
				sb.WriteByte(',')
			}
			canonInto(sb, e)
		}
		sb.WriteByte(']')
	case []int:
		sb.WriteByte('[')
		for i, e := range x {
			if i > 0 {
				sb.WriteByte(',')
			}
			sb.WriteString(fmt.Sprintf("%d", e))
		}
		sb.WriteByte(']')
	case float64:
		sb.WriteString(fmt.Sprintf("%d", int(x)))
	case int:
		sb.WriteString(fmt.Sprintf("%d", x))
	case bool:
		if x {
			sb.WriteString("true")
		} else {
			sb.WriteString("false")
		}
	case string:
		sb.WriteString(fmt.Sprintf("%q", x))
	case nil:
		sb.WriteString("null")
	default:
		b, _ := json.Marshal(x)
		sb.Write(b)
	}
}
