------------------------------ MODULE Codegen ------------------------------
(* AST -> instruction sequence with absolute program counters.  A function- *)
(* by-function transcription of libvore/bytecode/generate.go and of the     *)
(* `adjust` methods of libvore/bytecode/bytecode.go (relocation of a stored *)
(* global pattern).  Program counters are 0-based as in the code; the       *)
(* instruction at pc is code[pc + 1].                                       *)
(*                                                                          *)
(* Instructions (field op):                                                 *)
(*   lit{s,neg,ci}  class{k,c,neg}  var{name}  rng{a,b}  call{name,to}      *)
(*   branch{targets}  notin+{next}  notin-  notin!{max}                     *)
(*   loop+{id,min,max,few,exit,name}  loop-{start}                          *)
(*   var+{name}  var-{name}  sub+{id,name,end}  sub-{name,pred}  jump{to}   *)
(*                                                                          *)
(* Generator state gs = [vars : name -> Int (-1 capture, else the pc of the *)
(* subroutine), nid : next loop id, globals : name -> [code, pred]].        *)
(* Deviation switches (all FALSE = the code as repaired) re-create          *)
(* historical defects for sensitivity runs; see DESIGN.md section 3.3.      *)
EXTENDS Semantics

CONSTANT Dev   \* set of deviation switch names that are ON

ILit(e)   == [op |-> "lit", s |-> e.s, neg |-> e.neg, ci |-> e.ci]
IClass(e) == [op |-> "class", k |-> e.k, c |-> e.c, neg |-> e.neg]
IRng(e)   == [op |-> "rng", a |-> e.a, b |-> e.b]
IJump(to) == [op |-> "jump", to |-> to]

Ok(code, gs) == [code |-> code, gs |-> gs, err |-> ""]
Err(msg, gs) == [code |-> <<>>, gs |-> gs, err |-> msg]

SetVar(gs, name, v) ==
  [gs EXCEPT !.vars = [x \in DOMAIN gs.vars \cup {name} |-> IF x = name THEN v ELSE gs.vars[x]]]
(* names declared by a loop body belong to the copy that declares them      *)
ForgetBodyNames(gs, outer) ==
  IF "NoCopyScoping" \in Dev THEN gs
  ELSE [gs EXCEPT !.vars = [x \in DOMAIN gs.vars \cap outer |-> gs.vars[x]]]

(* relocation of one stored instruction by d                                *)
Adjust(i, d) ==
  CASE i.op = "call"   -> [i EXCEPT !.to = @ + d]
    [] i.op = "branch" -> [i EXCEPT !.targets = [j \in 1..Len(i.targets) |-> i.targets[j] + d]]
    [] i.op = "notin+" -> [i EXCEPT !.next = @ + d]
    [] i.op = "loop+"  -> [i EXCEPT !.exit = @ + d]
    [] i.op = "loop-"  -> [i EXCEPT !.start = @ + d]
    [] i.op = "sub+"   -> IF "AdjustKeepsSubId" \in Dev THEN [i EXCEPT !.end = @ + d]
                          ELSE [i EXCEPT !.id = @ + d, !.end = @ + d]
    [] i.op = "jump"   -> [i EXCEPT !.to = @ + d]
    [] OTHER           -> i

GenItem(it) ==
  CASE it.k = "lit" -> ILit(it)
    [] it.k = "cls" -> IClass(it)
    [] it.k = "rng" -> IRng(it)

RECURSIVE Gen(_, _, _), GenSeq(_, _, _, _), GenCopies(_, _, _, _, _)

GenSeq(es, i, off, gs) ==
  IF i > Len(es) THEN Ok(<<>>, gs)
  ELSE LET r == Gen(es[i], off, gs) IN
       IF r.err # "" THEN r
       ELSE LET r2 == GenSeq(es, i + 1, off + Len(r.code), r.gs)
            IN [code |-> r.code \o r2.code, gs |-> r2.gs, err |-> r2.err]

(* the `left` mandatory copies of an unnamed loop body                      *)
GenCopies(body, left, off, gs, outer) ==
  IF left = 0 THEN Ok(<<>>, gs)
  ELSE LET r == Gen(body, off, ForgetBodyNames(gs, outer)) IN
       IF r.err # "" THEN r
       ELSE LET r2 == GenCopies(body, left - 1, off + Len(r.code), r.gs, outer)
            IN [code |-> r.code \o r2.code, gs |-> r2.gs, err |-> r2.err]

Gen(e, off, gs) ==
  CASE e.k = "lit"   -> Ok(<<ILit(e)>>, gs)
    [] e.k \in {"cls", "anc", "whole"} -> Ok(<<IClass(e)>>, gs)
    [] e.k = "rng"   -> Ok(<<IRng(e)>>, gs)
    [] e.k = "seq"   -> GenSeq(e.es, 1, off, gs)
    [] e.k = "or"    ->                                        \* generateBranch
         LET l == Gen(e.l, off + 1, gs) IN
         IF l.err # "" THEN l
         ELSE LET r == Gen(e.r, off + 2 + Len(l.code), l.gs) IN
              IF r.err # "" THEN r
              ELSE LET end == off + Len(l.code) + Len(r.code) + 3
                   IN Ok(<<[op |-> "branch", targets |-> <<off + 1, off + Len(l.code) + 2>>]>>
                           \o l.code \o <<IJump(end)>> \o r.code \o <<IJump(end)>>, r.gs)
    [] e.k = "in"    ->
         LET n == Len(e.items) IN
         IF ~e.neg                                             \* generate_not_not
         THEN LET end == off + 1 + 2 * n                       \* every item is one instruction
              IN Ok(<<[op |-> "branch", targets |-> [j \in 1..n |-> off + 1 + 2 * (j - 1)]]>>
                      \o Cat([j \in 1..n |-> <<GenItem(e.items[j]), IJump(end)>>]), gs)
         ELSE                                                  \* generate_not
              Ok(Cat([j \in 1..n |->
                        <<[op |-> "notin+", next |-> off + 3 * (j - 1) + 3], GenItem(e.items[j]), [op |-> "notin-"]>>])
                   \o <<[op |-> "notin!", max |-> MaxItemWidth(e.items)]>>, gs)
    [] e.k = "loop"  ->                                        \* generateLoop
         LET outer  == DOMAIN gs.vars
             unroll == e.min > 0 /\ e.name = ""
             c == IF unroll THEN GenCopies(e.body, e.min, off, gs, outer) ELSE Ok(<<>>, gs)
         IN IF c.err # "" THEN c
            ELSE IF e.min = e.max /\ e.name = "" THEN c
            ELSE LET cur == off + Len(c.code)
                     b   == Gen(e.body, cur + 1, ForgetBodyNames(c.gs, outer))
                 IN IF b.err # "" THEN b
                    ELSE LET nmin == IF unroll THEN 0 ELSE e.min
                             nmax == IF e.max > 0 /\ e.name = "" THEN e.max - e.min ELSE e.max
                             id   == b.gs.nid
                             st   == [op |-> "loop+", id |-> id, min |-> nmin, max |-> nmax, few |-> e.few,
                                      exit |-> cur + Len(b.code) + 1, name |-> e.name]
                             sp   == [op |-> "loop-", start |-> cur]
                         IN Ok(c.code \o <<st>> \o b.code \o <<sp>>, [b.gs EXCEPT !.nid = @ + 1])
    [] e.k = "cap"   ->                                        \* generateVarDec
         LET b == Gen(e.body, off + 1, gs) IN
         IF b.err # "" THEN b
         ELSE IF e.name \in DOMAIN b.gs.vars THEN Err("name clash", b.gs)
         ELSE Ok(<<[op |-> "var+", name |-> e.name]>> \o b.code \o <<[op |-> "var-", name |-> e.name]>>,
                 SetVar(b.gs, e.name, -1))
    [] e.k = "sub"   ->                                        \* generateSubroutine
         IF e.name \in DOMAIN gs.vars THEN Err("name clash", gs)
         ELSE LET b == GenSeq(e.es, 1, off + 1, SetVar(gs, e.name, off)) IN
              IF b.err # "" THEN b
              ELSE Ok(<<[op |-> "sub+", id |-> off, name |-> e.name, end |-> off + 1 + Len(b.code)]>>
                        \o b.code \o <<[op |-> "sub-", name |-> e.name, pred |-> <<>>]>>, b.gs)
    [] e.k = "ref"   ->                                        \* generateVariable
         IF e.name \in DOMAIN gs.vars
         THEN IF gs.vars[e.name] = -1 THEN Ok(<<[op |-> "var", name |-> e.name]>>, gs)
              ELSE Ok(<<[op |-> "call", name |-> e.name, to |-> gs.vars[e.name]]>>, gs)
         ELSE IF e.name \notin DOMAIN gs.globals THEN Err("identifier is not defined", gs)
         ELSE LET g    == gs.globals[e.name]
                  body == [j \in 1..Len(g.code) |-> Adjust(g.code[j], off + 1)]
              IN Ok(<<[op |-> "sub+", id |-> off, name |-> e.name, end |-> off + 1 + Len(body)]>>
                      \o body \o <<[op |-> "sub-", name |-> e.name, pred |-> g.pred]>>,
                    SetVar(gs, e.name, off))

EmptyVars == [x \in {} |-> 0]
GS0 == [vars |-> EmptyVars, nid |-> 1, globals |-> [x \in {} |-> <<>>]]

(* `set name to pattern es begin pred end`: generated with fresh names      *)
RECURSIVE GenDefs(_, _, _)
GenDefs(defs, i, gs) ==
  IF i > Len(defs) THEN [gs |-> gs, err |-> ""]
  ELSE LET r == GenSeq(defs[i].es, 1, 0, [gs EXCEPT !.vars = EmptyVars]) IN
       IF r.err # "" THEN [gs |-> gs, err |-> r.err]
       ELSE GenDefs(defs, i + 1,
                    [r.gs EXCEPT !.globals =
                       [x \in DOMAIN r.gs.globals \cup {defs[i].name} |->
                          IF x = defs[i].name THEN [code |-> r.code, pred |-> defs[i].pred]
                          ELSE r.gs.globals[x]]])

(* the body of the k-th command of a program, compiled after its            *)
(* definitions and the commands before it                                   *)
RECURSIVE GenCmds(_, _, _, _)
GenCmds(cmds, i, k, gs) ==
  LET r == GenSeq(cmds[i].body, 1, 0, [gs EXCEPT !.vars = EmptyVars]) IN
  IF r.err # "" \/ i = k THEN [code |-> r.code, err |-> r.err]
  ELSE GenCmds(cmds, i + 1, k, r.gs)

CompileCmd(defs, cmds, k) ==
  LET d == GenDefs(defs, 1, GS0) IN
  IF d.err # "" THEN [code |-> <<>>, err |-> d.err]
  ELSE GenCmds(cmds, 1, k, d.gs)

(* amount clause -> the four fields of the command (parser.go parse_amount) *)
AmtFields(amt) ==
  CASE amt.k = "all"      -> [all |-> TRUE,  skip |-> 0,     take |-> 0,     last |-> 0]
    [] amt.k = "top"      -> [all |-> FALSE, skip |-> 0,     take |-> amt.n, last |-> 0]
    [] amt.k = "take"     -> [all |-> FALSE, skip |-> 0,     take |-> amt.n, last |-> 0]
    [] amt.k = "skip"     -> [all |-> TRUE,  skip |-> amt.s, take |-> 0,     last |-> 0]
    [] amt.k = "skiptake" -> [all |-> FALSE, skip |-> amt.s, take |-> amt.t, last |-> 0]
    [] amt.k = "last"     -> [all |-> TRUE,  skip |-> 0,     take |-> 0,     last |-> amt.n]
=============================================================================
