----------------------------- MODULE EvalCases -----------------------------
(* TLC as evaluator of the specification on a file of cases.                *)
(* Each case is one program (definitions, transforms, commands) plus a set  *)
(* of texts (explicit, or "all strings over sigma of length lo..hi").  One  *)
(* TLC state per case; the invariant prints, per case, what the             *)
(* specification allows.  If a case carries `got` (what the implementation  *)
(* returned), TLC itself decides acceptance (trace-validation direction).   *)
EXTENDS Replace, Json, SequencesExt

CONSTANTS CaseFile

Cases == ndJsonDeserialize(CaseFile)

VARIABLE i
vars == <<i>>

Init == i \in 1..Len(Cases)
Next == UNCHANGED i
Spec == Init /\ [][Next]_vars

Has(r, f) == f \in DOMAIN r

TextsOf(c) ==
  IF Has(c, "accept") /\ ~c.accept THEN <<>>          \* ill-typed by the specification: nothing to evaluate
  ELSE IF Has(c, "texts") THEN c.texts
  ELSE SetToSeq(StringsUpTo({c.sigma[j] : j \in 1..Len(c.sigma)}, c.lo, c.hi))

TransTable(c) ==
  LET tr == IF Has(c, "trans") THEN c.trans ELSE <<>>
  IN [x \in {tr[j].name : j \in 1..Len(tr)} |->
        (LET j == CHOOSE j \in 1..Len(tr) : tr[j].name = x IN tr[j].stmts)]

FName == <<116, 101, 120, 116>>     \* Run() names its input "text"

(* definitions may stand between the commands (`defs_before` of a command): *)
(* a command sees the definitions made before it, a later definition of a   *)
(* name replacing the earlier one from there on                             *)
DefsUpTo(c, j) ==
  (IF Has(c, "defs") THEN c.defs ELSE <<>>)
    \o Cat([n \in 1..j |-> IF Has(c.cmds[n], "defs_before") THEN c.cmds[n].defs_before ELSE <<>>])
LastOnly(ds) == SelectSeq([n \in 1..Len(ds) |-> [d |-> ds[n], keep |-> \A n2 \in (n + 1)..Len(ds) : ds[n2].name # ds[n].name]],
                          LAMBDA x : x.keep)
EffDefs(c, j) == LET L == LastOnly(DefsUpTo(c, j)) IN [n \in 1..Len(L) |-> L[n].d]

(* `set x to matches <command>` compiles its command and is inert when run  *)
CmdResultD(c, cmd, t, defs) ==
  IF cmd.kind = "setmatches" THEN [ms |-> <<>>, firm |-> TRUE, undef |-> FALSE, noret |-> FALSE, why |-> ""] ELSE
  LET E    == Expect(t, defs, cmd.body, cmd.amt)
  IN IF cmd.kind = "find" THEN [ms |-> E.ms, firm |-> E.firm, undef |-> FALSE, noret |-> FALSE, why |-> ""]
     ELSE LET tt == TransTable(c)
              R  == [j \in 1..Len(E.ms) |-> Replacement(t, E.ms[j], Len(E.ms), FName, tt, cmd.with)]
          IN [ms    |-> [j \in 1..Len(E.ms) |->
                           [s |-> E.ms[j].s, e |-> E.ms[j].e, n |-> E.ms[j].n, vars |-> E.ms[j].vars,
                            ls |-> E.ms[j].ls, le |-> E.ms[j].le, cs |-> E.ms[j].cs, ce |-> E.ms[j].ce,
                            repl |-> R[j].s,
                            hasr |-> HasReplacement(t, E.ms[j], Len(E.ms), FName, tt, cmd.with)]],
              firm  |-> E.firm,
              undef |-> \E j \in 1..Len(E.ms) : ~R[j].ok,
              noret |-> \E j \in 1..Len(E.ms) : R[j].noreturn,
              why   |-> IF \A j \in 1..Len(E.ms) : R[j].ok THEN ""
                        ELSE R[CHOOSE j \in 1..Len(E.ms) : ~R[j].ok].undefwhy]

CmdResult(c, cmd, t) == CmdResultD(c, cmd, t, IF Has(c, "defs") THEN c.defs ELSE <<>>)
CmdResultAt(c, j, t) == CmdResultD(c, c.cmds[j], t, EffDefs(c, j))

(* process code whose termination the bounded evaluator cannot establish is *)
(* not run (C09/C10/C12 speak about terminating process code only)          *)
ProcessCode(c) ==
  (IF Has(c, "trans") THEN {c.trans[j].stmts : j \in 1..Len(c.trans)} ELSE {})
    \cup (IF Has(c, "defs") THEN {c.defs[j].pred : j \in 1..Len(c.defs)} ELSE {})
Gate(c, t) ==
  ~Has(c, "ctx") \/
    \A ss \in ProcessCode(c) : \A j \in 1..Len(t) :
       RunProcess(ss, PredEnv(<<t[j]>>)).st \notin {"fuel", "undef"}     \* no defined value (e.g. division by zero): C09's known finding, not run here

SkippedResult(t) == [t |-> t, ms |-> <<>>, firm |-> FALSE, undef |-> FALSE, noret |-> FALSE, why |-> "", skip |-> TRUE]

TextResult(c, t) ==
  IF ~Gate(c, t) THEN SkippedResult(t) ELSE
  LET rs == [j \in 1..Len(c.cmds) |-> CmdResultAt(c, j, t)]
  IN [t     |-> t,
      ms    |-> Cat([j \in 1..Len(c.cmds) |-> rs[j].ms]),
      firm  |-> \A j \in 1..Len(c.cmds) : rs[j].firm,
      undef |-> \E j \in 1..Len(c.cmds) : rs[j].undef,
      noret |-> \E j \in 1..Len(c.cmds) : rs[j].noret,
      why   |-> IF \A j \in 1..Len(c.cmds) : rs[j].why = "" THEN ""
                ELSE rs[CHOOSE j \in 1..Len(c.cmds) : rs[j].why # ""].why]

CaseResult(c) ==
  LET T == TextsOf(c)
  IN [id |-> c.id, r |-> [j \in 1..Len(T) |-> TextResult(c, T[j])]]

Emit == PrintT(ToJson(CaseResult(Cases[i])))
=============================================================================
