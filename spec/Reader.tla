------------------------------- MODULE Reader -------------------------------
(* The buffered file reader: a window [min, max) of at most B bytes over a  *)
(* file of N bytes, and a cursor.  Anchors: libvore/files/bufferedfile.go   *)
(* (NewBufferedFile, Seek, Read), libvore/files/reader.go (Seek, Read,      *)
(* ReadAt).  The file content is not state: byte i of the file is Byte(i),  *)
(* so "the reader returns the bytes of the file" is                         *)
(*   Read(n) = <<Byte(cur), ..., Byte(cur + n - 1)>>.                        *)
EXTENDS Integers, Sequences

CONSTANTS N,     \* file size
          B,     \* buffer size (4096 in the code)
          H      \* the literal 4096 the re-centring arithmetic uses (= B in the code)

VARIABLES min, max, cur,   \* BufferedFile.minOffset, maxOffset, currentOffset
          roff,            \* Reader.offset (what the bounds test of Reader.Read uses)
          last             \* what the last operation returned (observation only)
rvars == <<min, max, cur, roff, last>>

Byte(i) == i                       \* the model's file: byte i "is" its own offset
FileSlice(a, n) == [j \in 1..n |-> Byte(a + j - 1)]

Min2(a, b) == IF a < b THEN a ELSE b

(* the window after re-centring on offset o (bufferedfile.go Seek)          *)
NewStart(o) ==
  LET s0 == IF o - (B \div 2) < 0 THEN 0 ELSE o - (B \div 2)
      fb == IF N - H < 0 THEN N ELSE N - H
  IN IF s0 >= fb THEN (IF N - H < 0 THEN 0 ELSE N - H) ELSE s0
Recentre(o) == [min |-> NewStart(o), max |-> NewStart(o) + Min2(B, N - NewStart(o))]

Init ==
  /\ min = 0 /\ max = Min2(B, N) /\ cur = 0 /\ roff = 0 /\ last = <<>>

(* BufferedFile.Seek(o, SeekStart) through Reader.Seek                      *)
SeekTo(o) ==
  /\ IF o < min \/ o >= max
     THEN LET w == Recentre(o) IN min' = w.min /\ max' = w.max
     ELSE UNCHANGED <<min, max>>
  /\ cur' = o /\ roff' = o
  /\ last' = <<>>
Seek == \E o \in 0..N : SeekTo(o)

(* BufferedFile.Read: copy what the window holds, re-centre on the cursor,  *)
(* repeat.  The loop as a recursive function of the three integers.         *)
RECURSIVE ReadLoop(_, _, _, _, _)
ReadLoop(mn, mx, c, need, fuel) ==
  IF need = 0 THEN [min |-> mn, max |-> mx, cur |-> c, data |-> <<>>, ok |-> TRUE]
  ELSE IF fuel = 0 THEN [min |-> mn, max |-> mx, cur |-> c, data |-> <<>>, ok |-> FALSE]   \* would spin
  ELSE LET avail == IF c >= mn /\ c < mx THEN Min2(mx - c, need) ELSE 0
       IN IF avail > 0
          THEN LET r == ReadLoop(mn, mx, c + avail, need - avail, fuel)
               \* the bytes come from the BUFFER: buffer[c - mn + j] = Byte(mn + (c - mn + j))
               IN [r EXCEPT !.data = [j \in 1..avail |-> Byte(mn + (c - mn) + j - 1)] \o @]
          ELSE LET w == (IF c < mn \/ c >= mx THEN [min |-> NewStart(c), max |-> NewStart(c) + Min2(B, N - NewStart(c))]
                                              ELSE [min |-> mn, max |-> mx])
               IN ReadLoop(w.min, w.max, c, need, fuel - 1)

(* Reader.Read(n): the empty result exactly when the range leaves the file. *)
(* Discipline: the engine seeks before every read (READ = SEEK; Read and    *)
(* ReadAt = Seek; Read), so the cursor equals the offset the bounds test    *)
(* uses.  (Without it Reader.Read tests a stale offset and BufferedFile.Read *)
(* would re-centre forever past the end -- no caller does that; the trace   *)
(* spec asserts the discipline on every recorded read.)                     *)
ReadN(n) ==
  /\ cur = roff
  /\ IF n = 0 \/ roff + n - 1 >= N
     THEN /\ last' = <<>> /\ UNCHANGED <<min, max, cur, roff>>
     ELSE LET r == ReadLoop(min, max, cur, n, 4)
          IN /\ min' = r.min /\ max' = r.max /\ cur' = r.cur
             /\ last' = IF r.ok THEN r.data ELSE <<-1>>
             /\ UNCHANGED roff
Read == \E n \in 0..(B + 2) : ReadN(n)

(* the engine always seeks before it reads (READ = SEEK; Read) -- as one    *)
(* combined step for the trace spec                                         *)
Next == Seek \/ Read
Spec == Init /\ [][Next]_rvars

(* ------------------------------------------------------------- invariants *)
WindowOK  == 0 <= min /\ min <= max /\ max <= N /\ max - min <= B
CursorOK  == 0 <= cur /\ cur <= N
(* after a seek below the end of the file the window holds the cursor       *)
(* (otherwise Read would re-centre forever)                                 *)
Covers    == (cur = roff /\ cur < N) => (min <= cur /\ cur < max)
(* a read never needs more than one re-centring per B bytes (no spinning)   *)
NoSpin    == last # <<-1>>
(* the reader returns the bytes of the file                                 *)
ReadsFile == last # <<>> => last = FileSlice(cur - Len(last), Len(last))
=============================================================================
