------------------------------- MODULE Lexer -------------------------------
(* The lexer of libvore/ast/lexer.go as a character automaton with one      *)
(* character of push-back: getNextToken's if/else chain transcribed in its  *)
(* textual order (the order decides), the final `switch`, string escapes.   *)
(* A source is a byte sequence; byte 0 reads as end of input, as in the     *)
(* code (`read` returns rune(0) at the end).                                *)
EXTENDS Bytes, TLC

CONSTANT LexDev     \* deviation switches: "AsIsFinalSwitch", "RegexIgnoresEof", "TwoRuneUnread", "SpaceEndsEscape"

(* ----------------------------------------------------------- char classes *)
IsLetterCh(c) == IsLetter(c)              \* ASCII scope (the code uses unicode.IsLetter)
IsDigitCh(c)  == IsDigit(c)
IsSpaceCh(c)  == c \in {32, 9, 10, 11, 12, 13}
IsHexCh(c)    == IsDigit(c) \/ (c >= 65 /\ c <= 70) \/ (c >= 97 /\ c <= 102)
HexVal(c)     == IF IsDigit(c) THEN c - 48 ELSE IF c >= 97 THEN c - 87 ELSE c - 55

Q1 == 39  Q2 == 34  BSL == 92  DASH == 45  LPAR == 40  RPAR == 41  LCUR == 123  RCUR == 125
COMMA == 44  EQ == 61  EXCL == 33  COLON == 58  LT == 60  GT == 62  ATS == 64  SLASH == 47
OpChars == {43, 37, 42, 47}                \* + % * /
KnownStart(c) == IsDigitCh(c) \/ IsLetterCh(c) \/ IsSpaceCh(c)
                   \/ c \in {LPAR, RPAR, LCUR, RCUR, COMMA, COLON, EQ, Q2, Q1, DASH, 43, LT, GT, 42, SLASH, 37, ATS}

EscapeOf(c) == CASE c = 110 -> 10 [] c = 116 -> 9 [] c = 114 -> 13 [] c = 97 -> 7
                 [] c = 98 -> 8 [] c = 102 -> 12 [] c = 118 -> 11 [] OTHER -> c

(* ------------------------------------------------------------ one token   *)
(* LexTok(src, p): the token starting at 0-based offset p:                   *)
(*   [st : final state, buf : bytes gathered, next : offset after the token] *)
ChAt(src, p) == IF p >= Len(src) THEN 0 ELSE src[p + 1]

RECURSIVE Run(_, _, _, _, _)
Run(src, p, st, buf, fuel) ==
  LET ch == ChAt(src, p)
      More(st2, buf2)   == Run(src, p + 1, st2, buf2, fuel - 1)
      Stop(st2, buf2)   == [st |-> st2, buf |-> buf2, next |-> p + 1]        \* char consumed, token ends
      Unread(st2, buf2) == [st |-> st2, buf |-> buf2, next |-> p]            \* char pushed back, token ends
      B1 == Append(buf, ch)
  IN
  IF fuel = 0 THEN [st |-> "FUEL", buf |-> buf, next |-> p]
  ELSE IF ch = 0 /\ st = "START" THEN [st |-> "END", buf |-> buf, next |-> p]
  ELSE IF ch = 0 THEN Unread(st, buf)
  ELSE IF st = "COMMENT" THEN (IF ch = 10 THEN Unread(st, buf) ELSE More(st, B1))
  ELSE IF st = "BLOCK" THEN More(IF ch = RPAR THEN "BLOCK_SE" ELSE "BLOCK", B1)
  ELSE IF st = "BLOCK_SE" /\ ch = DASH THEN More("BLOCK_EE", B1)
  ELSE IF st = "BLOCK_SE" /\ ch = RPAR THEN More("BLOCK_SE", B1)
  ELSE IF st = "BLOCK_EE" /\ ch = DASH THEN Stop("BLOCK_FINAL", B1)
  \* ")-)": the second parenthesis may still start the end (historically the automaton fell back to BLOCK: switch)
  ELSE IF st = "BLOCK_EE" /\ ch = RPAR /\ "BlockEndLosesParen" \notin LexDev THEN More("BLOCK_SE", B1)
  ELSE IF st \in {"BLOCK_EE", "BLOCK_SE"} THEN More("BLOCK", B1)
  ELSE IF ch = BSL /\ st = "STR_D" THEN More("ESC_D", buf)
  ELSE IF st = "STR_D" THEN (IF ch = Q2 THEN Stop("STR_END", buf) ELSE More(st, B1))
  ELSE IF ch = BSL /\ st = "STR_S" THEN More("ESC_S", buf)
  ELSE IF st = "STR_S" THEN (IF ch = Q1 THEN Stop("STR_END", buf) ELSE More(st, B1))
  ELSE IF ch = LPAR /\ st = "COMMENTSTART" THEN More("BLOCK", B1)
  \* an empty line comment ends at its own line end (historically it swallowed the newline and the next line: switch)
  ELSE IF st = "COMMENTSTART" /\ ch = 10 /\ "EmptyCommentSwallowsLine" \notin LexDev THEN Unread("COMMENT", buf)
  ELSE IF st = "COMMENTSTART" THEN More("COMMENT", B1)
  ELSE IF ch = LPAR /\ st = "START" THEN Stop("OPENPAREN", B1)
  ELSE IF ch = RPAR /\ st = "START" THEN Stop("CLOSEPAREN", B1)
  ELSE IF ch = LCUR /\ st = "START" THEN Stop("OPENCURLY", B1)
  ELSE IF ch = RCUR /\ st = "START" THEN Stop("CLOSECURLY", B1)
  ELSE IF ch = COMMA /\ st = "START" THEN Stop("COMMA", B1)
  ELSE IF ch = EXCL /\ st = "START" THEN More("EXCL", B1)
  ELSE IF ch = EQ /\ st = "EXCL" THEN Stop("NEQUAL", B1)
  ELSE IF ch = EQ /\ st = "START" THEN More("EQUAL_1", B1)
  ELSE IF ch = EQ /\ st = "EQUAL_1" THEN Stop("DEQUAL", B1)
  ELSE IF ch = EQ /\ st = "COLON" THEN Stop("COLONEQ", B1)
  ELSE IF ch = EQ /\ st = "OPSTART" THEN Stop("OPERATOR", B1)
  ELSE IF ch = COLON /\ st = "START" THEN More("COLON", B1)
  ELSE IF ch = DASH /\ st \in {"START", "DASH"} THEN More(IF st = "START" THEN "DASH" ELSE "COMMENTSTART", B1)
  ELSE IF st = "START" /\ ch \in OpChars THEN Stop("OPERATOR", B1)
  ELSE IF st = "START" /\ ch \in {GT, LT} THEN More("OPSTART", B1)
  ELSE IF IsSpaceCh(ch) /\ (st \notin {"ESC_D", "ESC_S"} \/ "SpaceEndsEscape" \in LexDev)
       THEN (IF st \in {"START", "WS"} THEN More("WS", B1) ELSE Unread(st, buf))
  ELSE IF IsDigitCh(ch) /\ st \in {"NUMBER", "START"} THEN More("NUMBER", B1)
  ELSE IF IsLetterCh(ch) /\ st = "START" THEN More("IDENT", B1)
  ELSE IF (IsDigitCh(ch) \/ IsLetterCh(ch)) /\ st = "IDENT" THEN More("IDENT", B1)
  ELSE IF ch = Q2 /\ st = "START" THEN More("STR_D", buf)
  ELSE IF st \in {"ESC_D", "ESC_S"} THEN
       LET back == IF st = "ESC_D" THEN "STR_D" ELSE "STR_S" IN
       IF ch = 120                                            \* \x
       THEN LET h1 == ChAt(src, p + 1)  h2 == ChAt(src, p + 2) IN
            IF IsHexCh(h1) /\ IsHexCh(h2)
            THEN Run(src, p + 3, back, Append(buf, 16 * HexVal(h1) + HexVal(h2)), fuel - 1)
            ELSE IF "TwoRuneUnread" \in LexDev /\ h1 # 0
                 THEN Run(src, p + 2, back, Append(buf, 120), fuel - 1)   \* historical: only one rune is pushed back
                 ELSE Run(src, p + 1, back, Append(buf, 120), fuel - 1)   \* incomplete \x keeps its followers
       ELSE More(back, Append(buf, EscapeOf(ch)))
  ELSE IF ch = Q1 /\ st = "START" THEN More("STR_S", buf)
  ELSE IF st = "START" /\ ch = ATS THEN
       IF ChAt(src, p + 1) # SLASH THEN Unread("ERROR", buf) \* (the `@` is consumed, the other char pushed back)
       ELSE LET RECURSIVE Body(_, _)
                Body(q, acc) ==
                  IF ChAt(src, q) = SLASH THEN [st |-> "REGEXP", buf |-> acc, next |-> q + 1]
                  ELSE IF ChAt(src, q) = 0                      \* end of input (a NUL byte reads as end of input)
                       THEN (IF "RegexIgnoresEof" \in LexDev THEN [st |-> "HANG", buf |-> acc, next |-> q]
                             ELSE [st |-> "ERROR", buf |-> acc, next |-> q])
                  ELSE Body(q + 1, Append(acc, ChAt(src, q)))
            IN Body(p + 2, buf)
  ELSE IF st # "START" \/ KnownStart(ch) THEN Unread(st, buf)
  ELSE Stop("ERROR", B1)

LexTok(src, p) ==
  LET r == Run(src, p, "START", <<>>, Len(src) + 3)
  IN IF r.st = "ERROR" /\ r.next = p THEN [r EXCEPT !.next = p + 1] ELSE r   \* `@` followed by a non-slash: the `@` is consumed

(* ------------------------------------------------------------ final switch *)
Keywords == { "find", "replace", "with", "set", "to", "pattern", "matches", "transform", "function", "all", "skip",
              "take", "top", "last", "any", "whitespace", "digit", "upper", "lower", "letter", "line", "file", "word",
              "start", "end", "begin", "not", "at", "least", "most", "between", "and", "exactly", "maybe", "fewest",
              "named", "in", "or", "if", "then", "else", "debug", "return", "head", "tail", "loop", "continue", "break",
              "true", "false", "whole", "caseless" }

(* token kind of a final state; "PANIC" = the code's `default: panic`,       *)
(* "LEXERROR" = a LexError value                                             *)
StatesWithoutFinal == {"EXCL", "ESC_D", "ESC_S", "COMMENTSTART"}    \* missing from the historical switch
KindOf(st, buf) ==
  IF "AsIsFinalSwitch" \in LexDev /\ st \in StatesWithoutFinal THEN "PANIC"
  ELSE CASE st = "END" -> "EOF"
    [] st \in {"ERROR", "COLON", "EXCL"} -> "LEXERROR"
    [] st \in {"STR_S", "STR_D", "ESC_S", "ESC_D"} -> "LEXERROR"       \* unending string
    [] st \in {"BLOCK", "BLOCK_SE", "BLOCK_EE"} -> "LEXERROR"          \* unending block comment
    [] st = "STR_END" -> "STRING"
    [] st = "NUMBER" -> "NUMBER"
    [] st = "REGEXP" -> "REGEXP"
    [] st = "IDENT" -> "WORD"                                          \* identifier or keyword
    [] st = "WS" -> "WS"
    [] st \in {"COMMENT", "COMMENTSTART", "BLOCK_FINAL"} -> "COMMENT"
    [] st = "DASH" -> "MINUS"
    [] st = "EQUAL_1" -> "EQUAL"
    [] st \in {"OPERATOR", "OPSTART"} -> "OP"
    [] st \in {"OPENPAREN", "CLOSEPAREN", "OPENCURLY", "CLOSECURLY", "COMMA", "DEQUAL", "NEQUAL", "COLONEQ"} -> st
    [] st = "HANG" -> "HANG"
    [] OTHER -> "PANIC"

(* ------------------------------------------------------------ whole source *)
(* Lex(src): [ok, toks] ; a token is [kind, buf]                            *)
RECURSIVE LexFrom(_, _, _)
LexFrom(src, p, acc) ==
  LET r == LexTok(src, p)
      k == KindOf(r.st, r.buf)
  IN IF k \in {"LEXERROR", "PANIC", "HANG"} THEN [ok |-> FALSE, why |-> k, toks |-> acc]
     ELSE IF k = "EOF" THEN [ok |-> TRUE, why |-> "", toks |-> acc]
     ELSE LexFrom(src, r.next, Append(acc, [kind |-> k, buf |-> r.buf, s |-> p, e |-> r.next]))
Lex(src) == LexFrom(src, 0, <<>>)

Significant(toks) == SelectSeq(toks, LAMBDA t : t.kind \notin {"WS", "COMMENT"})
(* the meaning-bearing part of a token: its kind and text (words compare     *)
(* case-insensitively when they are keywords)                                *)
LowerB(c) == IF c >= 65 /\ c <= 90 THEN c + 32 ELSE c
LowerSeq(s) == [i \in 1..Len(s) |-> LowerB(s[i])]
TokKey(t) == [kind |-> t.kind, buf |-> t.buf]
Keys(toks) == [i \in 1..Len(toks) |-> TokKey(toks[i])]

(* ------------------------------------------------------- string literals   *)
(* spellings of one byte b inside a literal quoted with q                    *)
HexDigit(n, upper) == IF n < 10 THEN 48 + n ELSE IF upper THEN 55 + n ELSE 87 + n
SpellRaw(b)        == <<b>>
SpellHex(b, upper) == <<BSL, 120, HexDigit(b \div 16, upper), HexDigit(b % 16, upper)>>
SpellBackslash(b)  == <<BSL, b>>
EscapeLetter(b) == CASE b = 10 -> 110 [] b = 9 -> 116 [] b = 13 -> 114 [] b = 7 -> 97
                     [] b = 8 -> 98 [] b = 12 -> 102 [] b = 11 -> 118 [] OTHER -> 0
(* every spelling of byte b inside quotes q                                  *)
SpellingsOf(b, q) ==
  {SpellHex(b, TRUE), SpellHex(b, FALSE)}
    \cup (IF b \notin {q, BSL, 0} THEN {SpellRaw(b)} ELSE {})
    \cup (IF EscapeLetter(b) # 0 THEN {<<BSL, EscapeLetter(b)>>} ELSE {})
    \cup (IF EscapeOf(b) = b /\ b # 120 THEN {SpellBackslash(b)} ELSE {})    \* backslash before any other character
(* the bytes a literal spelled `body` between quotes q denotes: what the     *)
(* automaton gathers                                                         *)
Denote(q, body) ==
  LET r == LexTok(<<q>> \o body \o <<q>>, 0)
  IN IF r.st = "STR_END" /\ r.next = Len(body) + 2 THEN [ok |-> TRUE, s |-> r.buf] ELSE [ok |-> FALSE, s |-> <<>>]
=============================================================================
