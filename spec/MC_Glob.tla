------------------------------ MODULE MC_Glob ------------------------------
(* Model-checking job on the glob definition: the recursive segment match   *)
(* of Glob.tla agrees, for every pattern and every name of the scope, with  *)
(* the independent "split the name along the literal pieces of the          *)
(* pattern" definition (first piece is a prefix, last piece a suffix, the   *)
(* middle pieces occur in order, leftmost first, without overlap).          *)
EXTENDS Glob

(* literal pieces of a pattern, split at stars (consecutive stars give      *)
(* empty pieces)                                                            *)
RECURSIVE Pieces(_, _)
Pieces(p, cur) ==
  IF p = <<>> THEN <<cur>>
  ELSE IF p[1] = STAR THEN <<cur>> \o Pieces(Tail(p), <<>>)
  ELSE Pieces(Tail(p), Append(cur, p[1]))

IsPrefix2(a, n) == Len(a) <= Len(n) /\ SubSeq(n, 1, Len(a)) = a
IsSuffix2(a, n) == Len(a) <= Len(n) /\ SubSeq(n, Len(n) - Len(a) + 1, Len(n)) = a
(* leftmost occurrence of piece a in n at or after 1-based index from; 0 if none *)
RECURSIVE FindFrom(_, _, _)
FindFrom(a, n, from) ==
  IF from + Len(a) - 1 > Len(n) THEN 0
  ELSE IF SubSeq(n, from, from + Len(a) - 1) = a THEN from
  ELSE FindFrom(a, n, from + 1)
RECURSIVE Middle(_, _, _, _, _)
Middle(ps, i, n, from, limit) ==      \* pieces ps[i..Len(ps)-1] inside n[from..limit]
  IF i >= Len(ps) THEN TRUE
  ELSE LET at == FindFrom(ps[i], SubSeq(n, 1, limit), from)
       IN at # 0 /\ Middle(ps, i + 1, n, at + Len(ps[i]), limit)
SplitMatch(n, p) ==
  LET ps == Pieces(p, <<>>) IN
  IF Len(ps) = 1 THEN n = ps[1]
  ELSE /\ IsPrefix2(ps[1], n) /\ IsSuffix2(ps[Len(ps)], n)
       /\ Len(ps[1]) + Len(ps[Len(ps)]) <= Len(n)
       /\ Middle(ps, 2, n, Len(ps[1]) + 1, Len(n) - Len(ps[Len(ps)]))

VARIABLE pat
Init == pat \in Patterns
Next == UNCHANGED pat
Spec == Init /\ [][Next]_pat

DefinitionsAgree == \A n \in Names \cup {<<>>} : SegMatch(n, pat) = SplitMatch(n, pat)
=============================================================================
