------------------------------ MODULE VMTrace ------------------------------
(* Trace validation: engine steps recorded from the real code by hook H1    *)
(* (libvore/engine/verif_on.go) are checked to be a behaviour of VM.tla,    *)
(* run on the implementation's OWN bytecode (the case file carries `code`). *)
(* One trace line per VM instruction step; the scan-level actions           *)
(* (AttemptSucceed / AttemptFail / ScanNext) are silent steps of the trace  *)
(* spec.  Every logged scalar is asserted at every step, so the search is   *)
(* linear.  Many traces are concatenated with `reset` events.               *)
EXTENDS VM

CONSTANT TraceFile
Trace == ndJsonDeserialize(TraceFile)

VARIABLE l          \* next trace line to consume
tvars == <<vars, l>>

Ev == Trace[l]

StartCase(c) ==
  /\ ci' = c /\ ti' = 1
  /\ from' = 0 /\ fline' = 1 /\ fcol' = 1 /\ matchNo' = 0 /\ out' = <<>> /\ steps' = 0
  /\ LET n == Len(CaseTab[c].texts[1]) IN
     IF n = 0 \/ ~(CaseTab[c].amt.all \/ 0 < CaseTab[c].amt.skip + CaseTab[c].amt.take)
     THEN phase' = "done" /\ m' = Fresh(0, 1, 1)
     ELSE phase' = "attempt" /\ m' = [Fresh(0, 1, 1) EXCEPT !.st = IF Len(CaseTab[c].code) = 0 THEN "ok" ELSE "run"]

TraceInit ==
  /\ l = 2
  /\ Trace[1].ev = "reset"
  /\ ci = Trace[1].c /\ ti = 1
  /\ from = 0 /\ fline = 1 /\ fcol = 1 /\ matchNo = 0 /\ out = <<>> /\ steps = 0
  /\ LET c == Trace[1].c  n == Len(CaseTab[c].texts[1]) IN
     IF n = 0 \/ ~(CaseTab[c].amt.all \/ 0 < CaseTab[c].amt.skip + CaseTab[c].amt.take)
     THEN phase = "done" /\ m = Fresh(0, 1, 1)
     ELSE phase = "attempt" /\ m = [Fresh(0, 1, 1) EXCEPT !.st = IF Len(CaseTab[c].code) = 0 THEN "ok" ELSE "run"]

(* one recorded engine step = one VM instruction step; the hook fires       *)
(* before the engine's end-of-code test, so the logged status is compared   *)
(* with the unsettled result                                                *)
TraceStep ==
  /\ l <= Len(Trace) /\ Ev.ev = "step"
  /\ phase = "attempt" /\ m.st = "run"
  /\ Ev.a = from /\ Ev.pc0 = m.pc /\ Ev.op = Instr(m.pc).op
  /\ LET r == Exec(m, Instr(m.pc)) IN
       /\ r.pc = Ev.pc /\ r.pos = Ev.pos /\ r.st = Ev.st
       /\ Len(r.bt) = Ev.bt /\ Len(r.loops) = Ev.loops /\ Len(r.calls) = Ev.calls /\ Len(r.open) = Ev.open
       /\ DOMAIN r.env = DOMAIN Ev.env /\ \A x \in DOMAIN r.env : r.env[x] = Ev.env[x]
       /\ m' = Settle(r)
  /\ steps' = steps + 1
  /\ l' = l + 1
  /\ UNCHANGED <<ci, ti, from, fline, fcol, matchNo, out, phase>>

Silent == (AttemptSucceed \/ AttemptFail \/ ScanNext) /\ UNCHANGED l

(* the column claim is for ASCII texts (the engine counts characters)        *)
AsciiText == \A j \in 1..Len(Text) : Text[j] < 128
SameMatch(a, b) ==
  /\ a.s = b.s /\ a.e = b.e /\ a.n = b.n /\ a.ls = b.ls /\ a.le = b.le /\ (AsciiText => a.cs = b.cs /\ a.ce = b.ce)
  /\ DOMAIN a.vars = DOMAIN b.vars /\ \A x \in DOMAIN a.vars : a.vars[x] = b.vars[x]

(* the run ended: the engine's result list is the machine's queue           *)
TraceDone ==
  /\ l <= Len(Trace) /\ Ev.ev = "done"
  /\ phase = "done"
  /\ Len(Ev.out) = Len(out) /\ \A j \in 1..Len(out) : SameMatch(out[j], Ev.out[j])
  /\ l' = l + 1
  /\ UNCHANGED vars

TraceReset ==
  /\ l <= Len(Trace) /\ Ev.ev = "reset"
  /\ StartCase(Ev.c)
  /\ l' = l + 1

TraceNext == TraceStep \/ Silent \/ TraceDone \/ TraceReset

TraceSpec == TraceInit /\ [][TraceNext]_tvars

(* acceptance: the whole trace was consumed.  High-water mark of l in a TLC  *)
(* register (the search is a single line, -workers 1)                        *)
HighWater == TLCSet(1, IF TLCGet(1) < l THEN l ELSE TLCGet(1))
ASSUME TLCSet(1, 0)
TraceAccepted ==
  \/ TLCGet(1) = Len(Trace) + 1
  \/ Print(<<"TRACE-REJECTED at line", TLCGet(1), Trace[IF TLCGet(1) <= Len(Trace) THEN TLCGet(1) ELSE Len(Trace)]>>, FALSE)
=============================================================================
