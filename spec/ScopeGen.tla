------------------------------ MODULE ScopeGen ------------------------------
(* TLC as enumerator: writes the cases of one scope family to a file.       *)
EXTENDS Scope, Json, TLC

CONSTANTS Family, Tier, OutFile

BodySeqCases(B, tier) ==
  LET S == SetToSeq(B) IN [i \in 1..Len(S) |-> BodyCase(i, S[i], tier)]

(* every k-th body additionally as a replace command in the same program    *)
WithReplace(c, k) ==
  IF c.id % k # 0 THEN c
  ELSE [c EXCEPT !.cmds = @ \o <<ReplAllCmd(c.cmds[1].body, <<[k |-> "str", s |-> <<120>>]>>)>>]

GlobalSeqCases(G, tier, base) ==
  LET S == SetToSeq(G)
  IN [i \in 1..Len(S) |->
        LET M  == MentionsSeq(S[i].body) \cup UNION {MentionsSeq(S[i].defs[j].es) : j \in 1..Len(S[i].defs)}
            Sg == SigmaFor(M)
        IN MkCase(base + i, S[i].defs, <<FindAllCmd(S[i].body)>>, Sg, LenFor(Sg, tier))]

AmountCases(B, tier) ==
  LET S  == SetToSeq(B)
      hi == IF tier = "quick" THEN 6 ELSE 8
      nA == IF tier = "quick" THEN 4 ELSE 6
      A  == SetToSeq(AmountsUpTo(nA))
  IN [i \in 1..(Len(S) * Len(A)) |->
        LET bi == ((i - 1) \div Len(A)) + 1
            ai == ((i - 1) % Len(A)) + 1
            Sg == SigmaFor(MentionsSeq(S[bi]))
        IN MkCase(i, <<>>,
                  <<[kind |-> IF i % 3 = 0 THEN "replace" ELSE "find", amt |-> A[ai], body |-> S[bi],
                     with |-> <<[k |-> "str", s |-> <<120>>], [k |-> "name", name |-> "matchNumber"]>>]>>,
                  Sg, IF Cardinality(Sg) <= 2 THEN hi ELSE hi - 2)]

CasesOf(fam, tier) ==
  CASE fam = "C01"  -> LET A == BodySeqCases(C01_Bodies(tier), tier)
                       IN [i \in 1..Len(A) |-> WithReplace(A[i], 7)] \o GlobalSeqCases(C01_GlobalCases, tier, Len(A))
    [] fam = "C02"  -> BodySeqCases(C02_Bodies, tier)
    [] fam = "C04"  -> AmountCases(C04_BodiesQ, tier)

ASSUME ndJsonSerialize(OutFile, CasesOf(Family, Tier))
ASSUME PrintT(<<"cases", Len(CasesOf(Family, Tier))>>)
=============================================================================
