------------------------------ MODULE ScopeGen ------------------------------
(* TLC as enumerator: writes the cases of one scope family to a file.       *)
EXTENDS ExprScope, Json, TLC

CONSTANTS Family, Tier, OutFile

BodySeqCases(B, tier) ==
  LET S == SetToSeq(B) IN [i \in 1..Len(S) |-> BodyCase(i, S[i], tier)]

(* every k-th body additionally as a replace command in the same program    *)
WithReplace(c, k) ==
  IF c.id % k # 0 THEN c
  ELSE [c EXCEPT !.cmds = @ \o <<ReplAllCmd(c.cmds[1].body, <<[k |-> "str", s |-> <<120>>]>>)>>]

GlobalSeqCases(G, tier, base) ==
  LET S == SetToSeq(G)
  IN [i \in 1..Len(S) |->
        LET M  == MentionsSeq(S[i].body) \cup UNION {MentionsSeq(S[i].defs[j].es) : j \in 1..Len(S[i].defs)}
            Sg == SigmaFor(M)
        IN MkCase(base + i, S[i].defs, <<FindAllCmd(S[i].body)>>, Sg, LenFor(Sg, tier))]

AmountCases(B, tier) ==
  LET S  == SetToSeq(B)
      hi == IF tier = "quick" THEN 6 ELSE 8
      nA == IF tier = "quick" THEN 4 ELSE 6
      A  == SetToSeq(AmountsUpTo(nA))
  IN [i \in 1..(Len(S) * Len(A)) |->
        LET bi == ((i - 1) \div Len(A)) + 1
            ai == ((i - 1) % Len(A)) + 1
            Sg == SigmaFor(MentionsSeq(S[bi]))
        IN MkCase(i, <<>>,
                  <<[kind |-> IF i % 3 = 0 THEN "replace" ELSE "find", amt |-> A[ai], body |-> S[bi],
                     with |-> <<[k |-> "str", s |-> <<120>>], [k |-> "name", name |-> "matchNumber"]>>]>>,
                  Sg, IF Cardinality(Sg) <= 2 THEN hi ELSE hi - 2)]

ReplaceCases(tier) ==
  LET B == SetToSeq(C05_Bodies)
      W == SetToSeq(C05_Withs)
      Sg == {ba, bb, nl}
  IN [i \in 1..(Len(B) * Len(W)) |->
        LET bi == ((i - 1) % Len(B)) + 1
            wi == ((i - 1) \div Len(B)) + 1
        IN [id |-> i, defs |-> <<>>, trans |-> C05_Trans,
            cmds |-> <<[kind |-> "replace", amt |-> [k |-> "all"], body |-> B[bi], with |-> W[wi]]>>,
            \* thorough: single items on all texts up to length 5, pairs of items up to length 4
            sigma |-> SetToSeq(Sg), lo |-> 1, hi |-> IF tier = "quick" THEN 3 ELSE IF Len(W[wi]) <= 1 THEN 5 ELSE 4]]

(* C06: command lists x file sets x modes x stale .vored                    *)
FileCases(tier) ==
  LET single == {<<[kind |-> "find", amt |-> [k |-> "all"], body |-> <<La>>]>>}
                  \cup {<<[kind |-> "replace", amt |-> [k |-> "all"], body |-> b, with |-> w]>> : b \in C06_Bodies, w \in C06_Withs}
      second == {[kind |-> "replace", amt |-> [k |-> "all"], body |-> <<Lb>>, with |-> <<WStr(<<ba, ba>>)>>],
                 [kind |-> "find", amt |-> [k |-> "all"], body |-> <<Cls("any")>>],
                 [kind |-> "replace", amt |-> [k |-> "skip", s |-> 1], body |-> <<Cls("any")>>, with |-> <<WStr(<<>>)>>]}
      cmdls  == single \cup {c \o <<d>> : c \in single, d \in second}
      cont   == StringsUpTo({ba, bb, bc}, 0, IF tier = "quick" THEN 3 ELSE 4)
      fsets  == {<<[name |-> "f.txt", bytes |-> t]>> : t \in cont}
                  \* a searched file whose own name ends in .vored: NEW writes <name>.vored.vored next to it
                  \cup {<<[name |-> "g.vored", bytes |-> t]>> : t \in StringsUpTo({ba, bb}, 1, 2)}
                  \cup {<<[name |-> "f.txt", bytes |-> t], [name |-> "g.txt", bytes |-> u]>> :
                         t \in StringsUpTo({ba, bb}, 0, 2), u \in {<<>>, <<ba, bb>>, <<ba, ba, bb>>}}
      \* files next to the searched one that a run has no business with: a stale .vored (NEW replaces it), and bystanders
      \* with names an implementation might use for temporary copies
      stale  == {<<>>, <<[name |-> "f.txt.vored", bytes |-> <<122, 122, 122, 122, 122, 122, 122, 122, 122>>]>>,
                 <<[name |-> "f.txt.tmp", bytes |-> <<116, 109, 112>>], [name |-> "f.txt.bak", bytes |-> <<98>>], [name |-> "f.txt~", bytes |-> <<126>>],
                   [name |-> ".f.txt.swp", bytes |-> <<115>>]>>}
      modes  == {"NOTHING", "NEW", "OVERWRITE"}
      All    == SetToSeq({[cmds |-> c, files |-> f \o st, order |-> [j \in 1..Len(f) |-> f[j].name], mode |-> mo] :
                            c \in cmdls, f \in fsets, st \in stale, mo \in modes})
      keep   == IF tier = "quick" THEN 4 ELSE 1
      nA == Len(All) \div keep
      \* directory arguments: a listed directory (searched again by the second command, which then also sees the
      \* .vored files the first one created), alone and mixed with a plain file
      dcmds  == {<<[kind |-> "replace", amt |-> [k |-> "all"], body |-> <<La>>, with |-> <<WStr(<<120, 121>>)>>]>>,
                 <<[kind |-> "replace", amt |-> [k |-> "all"], body |-> <<La>>, with |-> <<WStr(<<>>)>>],
                   [kind |-> "replace", amt |-> [k |-> "all"], body |-> <<Lb>>, with |-> <<WStr(<<ba, ba>>)>>]>>,
                 <<[kind |-> "find", amt |-> [k |-> "all"], body |-> <<Cls("any")>>],
                   [kind |-> "replace", amt |-> [k |-> "all"], body |-> <<Lab>>, with |-> <<WName("value"), WName("value")>>]>>,
                 <<[kind |-> "replace", amt |-> [k |-> "all"], body |-> <<Lb>>, with |-> <<WStr(<<bc>>)>>],
                   [kind |-> "find", amt |-> [k |-> "all"], body |-> <<Lit(<<bc>>)>>]>>}
      dconts == {<<t, u>> : t \in {<<ba, bb>>, <<>>, <<bb, ba, ba>>}, u \in {<<ba>>, <<bb, bb, ba, bb>>}}
      DAll   == SetToSeq({[cmds |-> c, ct |-> x, ord |-> o, mode |-> mo] :
                            c \in dcmds, x \in dconts, o \in {<<"sub">>, <<"f.txt", "sub">>, <<"sub", "f.txt">>}, mo \in modes})
  IN [i \in 1..nA |->
        LET a == All[i * keep]
        IN [id |-> i, defs |-> <<>>, trans |-> <<>>, cmds |-> a.cmds, files |-> a.files, order |-> a.order, mode |-> a.mode]]
     \o [i \in 1..Len(DAll) |->
        LET a == DAll[i]
        IN [id |-> nA + i, defs |-> <<>>, trans |-> <<>>, cmds |-> a.cmds,
            files |-> <<[name |-> "f.txt", bytes |-> <<ba, bb, ba>>], [d |-> "sub", name |-> "a.txt", bytes |-> a.ct[1]],
                        [d |-> "sub", name |-> "b.txt", bytes |-> a.ct[2]]>>,
            dirs |-> <<[d |-> "sub", names |-> <<"a.txt", "b.txt">>]>>,
            order |-> a.ord, mode |-> a.mode]]

(* C06N: -filenames runs: command lists x argument lists over a fixed tree   *)
NameCases(tier) ==
  LET sl == 47  X == 88  bd == 100
      withs == {<<WStr(<<X>>)>>, <<WStr(<<ba, bb>>)>>, <<WStr(<<bd>>)>>, <<WStr(<<bd, sl, X>>)>>, <<WStr(<<113, sl, X>>)>>, <<WStr(<<>>)>>,
                <<WName("value"), WStr(<<X>>)>>, <<WName("filename"), WStr(<<X>>)>>, <<WStr(<<46>>)>>}
      bodies == {<<Lb>>, <<Lit(<<bc>>)>>, <<In(<<La, Lb>>)>>, <<Lab>>, <<Lit(<<X>>)>>, <<Lit(<<bd, sl>>)>>}
      repls == {[kind |-> "replace", amt |-> [k |-> "all"], body |-> b, with |-> w] : b \in bodies, w \in withs}
      finds == {[kind |-> "find", amt |-> [k |-> "all"], body |-> <<Cls("any")>>]}
      second == {[kind |-> "replace", amt |-> [k |-> "all"], body |-> <<Lit(<<X>>)>>, with |-> <<WStr(<<bc, bc>>)>>],
                 [kind |-> "replace", amt |-> [k |-> "all"], body |-> <<La>>, with |-> <<WStr(<<X>>)>>],
                 [kind |-> "find", amt |-> [k |-> "all"], body |-> <<Cls("any")>>],
                 [kind |-> "replace", amt |-> [k |-> "skip", s |-> 1], body |-> <<Lb>>, with |-> <<WStr(<<121>>)>>]}
      cmdls == {<<c>> : c \in repls \cup finds} \cup {<<c, d>> : c \in repls \cup finds, d \in second}
                 \cup {<<c, d, d>> : c \in {r \in repls : r.with = <<WStr(<<X>>)>>}, d \in second}
      files == <<[path |-> <<ba, bb>>, bytes |-> <<49>>], [path |-> <<ba, bc>>, bytes |-> <<50>>], [path |-> <<bb>>, bytes |-> <<51>>],
                 [path |-> <<bd, sl, ba, bb>>, bytes |-> <<52>>], [path |-> <<bd, sl, bc>>, bytes |-> <<53>>]>>
      orders == {<<<<ba, bb>>>>, <<<<ba, bb>>, <<ba, bc>>>>, <<<<bd>>>>, <<<<ba, bb>>, <<bd>>>>, <<<<ba, bb>>, <<ba, bb>>>>, <<<<bd>>, <<bd>>>>,
                 <<<<bd, sl, ba, bb>>, <<bd>>>>, <<<<bb>>, <<ba, bb>>, <<ba, bc>>>>}
      All == SetToSeq({[cmds |-> c, order |-> o] : c \in cmdls, o \in orders})
      keep == IF tier = "quick" THEN 3 ELSE 1
      nA == Len(All) \div keep
  IN [i \in 1..nA |-> [id |-> i, defs |-> <<>>, trans |-> <<>>, cmds |-> All[i * keep].cmds, files |-> files, dirs |-> <<<<bd>>>>,
                        order |-> All[i * keep].order]]

ExprCases(tier) ==
  LET E == SetToSeq(C11_Exprs(tier))
      B == SetToSeq({e \in C11_Exprs(tier) : TypeOf(e, TEnv0) = "b"})
  IN [i \in 1..Len(E) |-> C11_Case(i, E[i])] \o [i \in 1..Len(B) |-> C11_PredCase(Len(E) + i, B[i])]

TypingCases(tier) ==
  LET L == SetToSeq(C12_Lists(tier))
      W == SetToSeq(C12_Writers)  R == SetToSeq(C12_Readers)
  IN [i \in 1..(2 * Len(L)) |->
        IF i <= Len(L) THEN C12_Case(i, L[i], "trans") ELSE C12_Case(i, L[i - Len(L)], "pred")]
     \o [i \in 1..(2 * Len(W) * Len(R)) |->
          LET j == (i - 1) \div 2 IN C12_Case2(2 * Len(L) + i, W[(j % Len(W)) + 1], R[(j \div Len(W)) + 1], ((i - 1) % 2) + 1)]

(* C13: for every (body, use) the three spellings, as single commands and  *)
(* as programs of 2-3 commands that share the definitions                   *)
TransparentCases(tier) ==
  LET B == SetToSeq(C13_Bodies)
      hi == IF tier = "quick" THEN 4 ELSE 6
      One(id, b, u, spl) ==
        LET body == CASE spl = 0 -> Written(B[b])[u] [] spl = 1 -> InlineSub(B[b])[u] [] spl = 2 -> GlobalRef(B[b])[u]
            Sg   == SigmaFor(MentionsSeq(B[b]) \cup {"lit"})
        IN [id |-> id, grp |-> (b - 1) * NUses + u, spelling |-> spl,
            defs |-> IF spl = 2 THEN <<GDef("s", B[b], <<>>)>> ELSE <<>>,
            cmds |-> <<FindAllCmd(body)>>, sigma |-> SetToSeq(Sg), lo |-> 1, hi |-> IF Cardinality(Sg) > 2 THEN hi - 1 ELSE hi]
      n1 == Len(B) * NUses * 3
      Multi(id, b, spl) ==
        LET W == CASE spl = 0 -> Written(B[b]) [] spl = 1 -> InlineSub(B[b]) [] spl = 2 -> GlobalRef(B[b])
            Sg == SigmaFor(MentionsSeq(B[b]) \cup {"lit"})
        IN [id |-> id, grp |-> 100000 + b, spelling |-> spl,
            defs |-> IF spl = 2 THEN <<GDef("s", B[b], <<>>)>> ELSE <<>>,
            cmds |-> <<FindAllCmd(W[2]), FindAllCmd(W[7]), FindAllCmd(W[5])>>,
            sigma |-> SetToSeq(Sg), lo |-> 1, hi |-> IF Cardinality(Sg) > 2 THEN hi - 1 ELSE hi]
  IN [i \in 1..n1 |->
        LET b  == ((i - 1) \div (NUses * 3)) + 1
            u  == (((i - 1) \div 3) % NUses) + 1
            spx == (i - 1) % 3
        IN One(i, b, u, spx)]
     \o [i \in 1..(Len(B) * 3) |-> Multi(n1 + i, ((i - 1) \div 3) + 1, (i - 1) % 3)]

CrashCases(tier) ==
  LET S == SetToSeq(C09_Bodies)
  IN [i \in 1..Len(S) |->
        LET Sg == SigmaFor(MentionsSeq(S[i]) \cup {"whitespace"})
        IN [id |-> i, defs |-> <<>>, cmds |-> <<FindAllCmd(S[i])>>, sigma |-> SetToSeq(Sg), lo |-> 0,
            hi |-> IF tier = "quick" THEN 3 ELSE 4]]

ProcessCrashCases(tier) ==
  LET E == SetToSeq(C09P_Exprs)
      P == SetToSeq(C09P_PredBodies)
  IN [i \in 1..Len(E) |-> C09P_Case(i, E[i])] \o <<[FlowProbe EXCEPT !.id = Len(E) + 1]>>
       \o [i \in 1..Len(P) |-> C09P_PredCase(Len(E) + 1 + i, P[i])]

NullableCases(tier) ==
  LET S == SetToSeq(C10_Bodies)
  IN [i \in 1..Len(S) |->
        [id |-> i, defs |-> <<>>, cmds |-> <<FindAllCmd(S[i])>>, sigma |-> <<ba, sp, nl>>, lo |-> 1,
         hi |-> IF tier = "quick" THEN 3 ELSE 4]]

ClassTableCases(base) ==
  LET S == SetToSeq(C01_ClassBodies)
  IN [i \in 1..Len(S) |-> MkCase(base + i, <<>>, <<FindAllCmd(S[i])>>, BoundaryBytes, 2)]

(* replace commands under amount clauses: built-ins of the SAME match         *)
ReplaceAmountCases(tier) ==
  LET B == SetToSeq({<<Cap("x", Cls("any"))>>, <<Lab>>, <<Loop(1, -1, FALSE, La)>>})
      W == SetToSeq({<<WName("matchNumber"), WStr(<<58>>), WName("value")>>, <<WName("startOffset"), WName("tnum")>>,
                     <<WName("x"), WName("endOffset"), WName("columnNumber")>>, <<WName("tdup"), WName("lineNumber")>>})
      A == SetToSeq({[k |-> "skip", s |-> 1], [k |-> "skip", s |-> 2], [k |-> "skiptake", s |-> 1, t |-> 2], [k |-> "last", n |-> 2],
                     [k |-> "last", n |-> 1], [k |-> "top", n |-> 2], [k |-> "take", n |-> 1]})
      n == Len(B) * Len(W) * Len(A)
  IN [i \in 1..n |->
        LET bi == ((i - 1) % Len(B)) + 1
            wi == (((i - 1) \div Len(B)) % Len(W)) + 1
            ai == ((i - 1) \div (Len(B) * Len(W))) + 1
        IN [id |-> 100000 + i, defs |-> <<>>, trans |-> C05_Trans,
            cmds |-> <<[kind |-> "replace", amt |-> A[ai], body |-> B[bi], with |-> W[wi]]>>,
            sigma |-> <<ba, bb, nl>>, lo |-> 1, hi |-> IF tier = "quick" THEN 4 ELSE 5]]

(* numbers with two digits: quantifier bounds, match numbers, offsets, lines, *)
(* columns, amounts -- on explicit longer texts                              *)
Rep(b, n) == [j \in 1..n |-> b]
LargeTexts == {Rep(ba, n) : n \in 0..14} \cup {Rep(ba, n) \o <<bb>> \o Rep(ba, m) : n \in {0, 5, 9, 10, 11, 12}, m \in {0, 5, 9, 10, 11, 12}}
                \cup {Rep(ba, 6) \o <<bb>> \o Rep(ba, 6) \o <<bb>>, Cat([j \in 1..7 |-> <<ba, bb>>])}
LargeBodies ==
  { <<Loop(12, 12, FALSE, La)>>, <<Loop(9, 11, FALSE, La)>>, <<Loop(9, 11, TRUE, La), Lb>>, <<Loop(10, -1, FALSE, In(<<La, Lb>>))>>,
    <<Loop(0, 10, FALSE, La), La>>, <<Loop(0, 10, TRUE, La), Lb>>, <<Lit(Rep(ba, 6))>>, <<Lit(Rep(ba, 5)), Loop(0, 1, FALSE, Lb)>>,
    <<Or(Lit(Rep(ba, 4)), Or(Lit(Rep(ba, 3)), Or(Lit(Rep(ba, 2)), La)))>>, <<In(<<Lc, Lit(<<100>>), Lit(<<101>>), Lit(<<102>>), Lb, La>>)>>,
    <<Cap("x", Grp(<<Loop(5, -1, FALSE, La)>>)), Lb, Ref("x")>>, <<Loop(11, -1, FALSE, Cap("x", La)), Lb>>,
    <<Grp(<<Grp(<<Grp(<<Grp(<<Loop(1, -1, FALSE, La)>>)>>)>>)>>), Lb>>, <<Loop(2, 2, FALSE, Grp(<<Loop(5, 5, FALSE, La)>>))>> }
LargeCases ==
  LET B == SetToSeq(LargeBodies) T == SetToSeq(LargeTexts)
  IN [i \in 1..Len(B) |-> [id |-> 300000 + i, defs |-> <<>>, cmds |-> <<FindAllCmd(B[i])>>, texts |-> T]]
LargeAmountCases ==
  LET A == SetToSeq({[k |-> "skip", s |-> 9], [k |-> "skip", s |-> 10], [k |-> "skip", s |-> 12], [k |-> "take", n |-> 10], [k |-> "top", n |-> 11],
                     [k |-> "skiptake", s |-> 9, t |-> 3], [k |-> "skiptake", s |-> 10, t |-> 10], [k |-> "last", n |-> 10], [k |-> "last", n |-> 12],
                     [k |-> "last", n |-> 1], [k |-> "all"]})
      T == <<Rep(ba, 9), Rep(ba, 10), Rep(ba, 11), Rep(ba, 12), Rep(ba, 13), Cat([j \in 1..12 |-> <<ba, nl>>]), Cat([j \in 1..11 |-> <<ba, bb>>])>>
  IN [i \in 1..(2 * Len(A)) |->
        LET ai == ((i - 1) % Len(A)) + 1 IN
        [id |-> 310000 + i, defs |-> <<>>, trans |-> C05_Trans,
         cmds |-> <<[kind |-> IF i > Len(A) THEN "replace" ELSE "find", amt |-> A[ai], body |-> <<Cap("x", La)>>,
                     with |-> <<WName("matchNumber"), WStr(<<58>>), WName("lineNumber"), WStr(<<58>>), WName("columnNumber"), WStr(<<58>>),
                                WName("startOffset"), WStr(<<45>>), WName("endOffset"), WStr(<<47>>), WName("totalMatches"), WName("tinc")>>]>>,
         texts |-> T]]

(* bytes outside the small alphabets: CR LF line ends, bytes >= 0x80 next to *)
(* word anchors, classes, lists and ranges with two-byte items              *)
ByteCases(tier) ==
  LET cr == 13  h1 == 195  h2 == 169
      E  == Lit(<<h1, h2>>)
      F1 == SetToSeq({<<La, Anc("lineend")>>, <<Anc("linestart"), Cls("any")>>, <<Cls("any"), Anc("lineend")>>,
                      <<Loop(1, -1, FALSE, La), NotAnc("lineend")>>, <<Cls("whitespace")>>, <<NotCls("whitespace")>>, <<Lit(<<cr, nl>>)>>,
                      <<Loop(1, -1, FALSE, NotLit(<<nl>>)), Anc("lineend")>>, <<Anc("linestart"), Loop(0, -1, TRUE, Cls("any")), Anc("lineend")>>,
                      <<Whole("line")>>, <<Whole("line"), Lit(<<cr, nl>>)>>, <<Cap("l", Whole("line"))>>})
      F2 == SetToSeq({<<Anc("wordstart"), Cls("any")>>, <<Cls("any"), Anc("wordend")>>, <<Anc("wordstart"), Loop(1, -1, TRUE, Cls("any")), Anc("wordend")>>,
                      <<Cls("letter")>>, <<Cls("upper")>>, <<Cls("lower")>>, <<NotCls("letter")>>, <<Cls("digit")>>, <<Cls("whitespace")>>,
                      <<NotIn(<<E, La>>)>>, <<In(<<E, La>>)>>, <<E>>, <<NotLit(<<h1, h2>>)>>, <<In(<<Rng(<<h1, 160>>, <<h1, 191>>)>>)>>,
                      <<NotIn(<<Rng(<<h1, 160>>, <<h1, 191>>)>>)>>, <<Cap("x", Cls("any")), Ref("x")>>, <<NotAnc("wordstart"), Cls("any")>>,
                      <<Cls("any"), NotAnc("wordend")>>, <<Loop(1, -1, FALSE, In(<<E, La>>))>>,
                      <<NotLit(<<ba, h1, h2>>)>>, <<Cls("any"), NotLit(<<h1, h2>>)>>, <<NotIn(<<Lit(<<ba, sp>>), La>>)>>, <<La, NotIn(<<Lit(<<sp, ba, ba>>)>>)>>,
                      <<In(<<Rng(<<ba, ba>>, <<ba, sp>>)>>)>>, <<NotLit(<<ba, ba, ba>>)>>})
      hi == IF tier = "quick" THEN 4 ELSE 5
  IN [i \in 1..Len(F1) |-> MkCase(320000 + i, <<>>, <<FindAllCmd(F1[i])>>, {ba, cr, nl}, hi)]
     \o [i \in 1..Len(F2) |-> MkCase(321000 + i, <<>>, <<FindAllCmd(F2[i])>>, {ba, h1, h2, sp}, hi)]

(* two-digit minimum counts over bodies that can match nothing               *)
LargeNullableCases ==
  LET B == SetToSeq({<<Lit(<<105, 100>>), Loop(10, 10, FALSE, Grp(<<Loop(0, 1, FALSE, La)>>)), Lb>>,
                     <<Loop(9, -1, FALSE, Grp(<<Loop(0, 1, FALSE, La)>>)), Lb>>,
                     <<Loop(9, 11, TRUE, Grp(<<Loop(0, 1, FALSE, La)>>)), Lb>>,
                     <<Loop(12, 12, FALSE, Grp(<<Or(La, Grp(<<>>))>>)), Lb>>})
      T == <<Rep(ba, 3) \o <<bb>>, <<bb>>, <<105, 100, bb>>, <<105, 100, ba, ba, bb>>, <<105, 100, ba, ba, ba, bb>>, <<ba, ba, bb>>, <<ba, ba>>>>
  IN [i \in 1..Len(B) |-> [id |-> 330000 + i, defs |-> <<>>, cmds |-> <<FindAllCmd(B[i])>>, texts |-> T]]

(* lines of a few hundred bytes (a reader or matcher that works in blocks    *)
(* meets its block boundary at the line end), LF and CR LF                   *)
LongLineCases ==
  LET cr == 13
      B == <<<<Whole("line")>>, <<Cap("l", Whole("line")), Loop(0, 1, FALSE, Lit(<<cr>>)), Lit(<<nl>>)>>, <<Loop(1, -1, FALSE, NotLit(<<nl>>)), Anc("lineend")>>>>
      K == <<127, 128, 129, 255, 256, 257, 511, 512, 513>>
      T == [j \in 1..(2 * Len(K)) |->
              LET k == K[((j - 1) % Len(K)) + 1]
              IN IF j <= Len(K) THEN Rep(ba, k) \o <<cr, nl>> \o <<bb, bb, cr, nl>> \o Rep(ba, k) \o <<cr, nl>>
                 ELSE Rep(ba, k) \o <<nl>> \o <<bb, nl>> \o Rep(ba, k)]
  IN [i \in 1..Len(B) |-> [id |-> 340000 + i, defs |-> <<>>, cmds |-> <<FindAllCmd(B[i])>>, texts |-> T]]

CasesOf(fam, tier) ==
  CASE fam = "C01"  -> LET A0 == BodySeqCases(C01_Bodies(tier), tier)
                           \* the depth-3 bodies of the thorough tier run on the shorter texts
                           A == [i \in 1..Len(A0) |-> IF tier = "thorough" /\ A0[i].cmds[1].body \in C01_Deep
                                                       THEN [A0[i] EXCEPT !.hi = LenFor({A0[i].sigma[j] : j \in 1..Len(A0[i].sigma)}, "quick")]
                                                       ELSE A0[i]]
                           Gc == GlobalSeqCases(C01_GlobalCases \cup C01_FreshPredCases, tier, Len(A))
                       IN [i \in 1..Len(A) |-> WithReplace(A[i], 7)] \o Gc \o ClassTableCases(Len(A) + Len(Gc)) \o LargeCases \o ByteCases(tier) \o LargeNullableCases \o LongLineCases
    [] fam = "C02"  -> BodySeqCases(C02_Bodies, tier)
    [] fam = "C03N" -> BodySeqCases(C03_NamedBodies, tier)
    [] fam = "C02N" -> BodySeqCases(C03_NamedBodies, tier)
    [] fam = "C03W" -> BodySeqCases(C03_WholeBodies, tier)
    [] fam = "C04"  -> AmountCases(C04_BodiesQ, tier) \o LargeAmountCases
    [] fam = "C05"  -> ReplaceCases(tier) \o ReplaceAmountCases(tier) \o LargeAmountCases
    [] fam = "C06"  -> FileCases(tier)
    [] fam = "C06N" -> NameCases(tier)
    [] fam = "C13"  -> TransparentCases(tier)
    [] fam = "C09"  -> CrashCases(tier)
    [] fam = "C09P" -> ProcessCrashCases(tier)
    [] fam = "C10"  -> NullableCases(tier)
    [] fam = "C11"  -> ExprCases(tier)
    [] fam = "C12"  -> TypingCases(tier)

ASSUME ndJsonSerialize(OutFile, CasesOf(Family, Tier))
ASSUME PrintT(<<"cases", Len(CasesOf(Family, Tier))>>)
=============================================================================
