------------------------------ MODULE Grammar ------------------------------
(* Programs as token strings, and the mutation actions of C08: from every   *)
(* corpus program every token prefix, every one-token deletion, duplication *)
(* and adjacent swap is reachable in one step.  TLC enumerates the          *)
(* reachable mutants; each is compiled by the real code.                    *)
(* A token is a string (its source spelling); the corpus is a file.         *)
EXTENDS Integers, Sequences, Json, TLC

CONSTANT CorpusFile      \* ndjson: {"id": n, "toks": ["find", "all", ...]}
Corpus == ndJsonDeserialize(CorpusFile)

VARIABLES pi,     \* corpus program
          toks,   \* current token string
          kind    \* how it was obtained
gvars == <<pi, toks, kind>>

Init == pi \in 1..Len(Corpus) /\ toks = Corpus[pi].toks /\ kind = "original"

Original == kind = "original"
Prefix == /\ Original /\ \E n \in 0..(Len(toks) - 1) : toks' = SubSeq(toks, 1, n)
          /\ kind' = "prefix" /\ UNCHANGED pi
Delete == /\ Original /\ \E i \in 1..Len(toks) : toks' = SubSeq(toks, 1, i - 1) \o SubSeq(toks, i + 1, Len(toks))
          /\ kind' = "delete" /\ UNCHANGED pi
Duplicate == /\ Original /\ \E i \in 1..Len(toks) : toks' = SubSeq(toks, 1, i) \o SubSeq(toks, i, Len(toks))
             /\ kind' = "duplicate" /\ UNCHANGED pi
Swap == /\ Original /\ \E i \in 1..(Len(toks) - 1) :
            toks' = SubSeq(toks, 1, i - 1) \o <<toks[i + 1], toks[i]>> \o SubSeq(toks, i + 2, Len(toks))
        /\ kind' = "swap" /\ UNCHANGED pi
(* a stray token (one spelling per token kind that steers the parser)        *)
(* inserted anywhere, and at the end of any prefix: the source then ends     *)
(* right after a token that does not belong there                            *)
Stray == {")", "(", "end", "'x'", "5", "=", ",", "then", "or", "not", "with", "to", "}", "{", "begin", "named", "x",
          "+", "==", "return", "if", "else", "loop", "in", "all", "@/a/"}
Insert == /\ Original /\ \E i \in 0..Len(toks), t \in Stray : toks' = SubSeq(toks, 1, i) \o <<t>> \o SubSeq(toks, i + 1, Len(toks))
          /\ kind' = "insert" /\ UNCHANGED pi
PrefixInsert == /\ Original /\ \E n \in 0..(Len(toks) - 1), t \in Stray : toks' = SubSeq(toks, 1, n) \o <<t>>
                /\ kind' = "prefix+insert" /\ UNCHANGED pi
Next == Prefix \/ Delete \/ Duplicate \/ Swap \/ Insert \/ PrefixInsert
Spec == Init /\ [][Next]_gvars

Emit == PrintT(ToJson([p |-> Corpus[pi].id, kind |-> kind, toks |-> toks]))
=============================================================================
