-------------------------------- MODULE Glob --------------------------------
(* -files patterns: `*` stands for any run of characters within one path    *)
(* segment; the file list is the set of regular files whose path matches    *)
(* the pattern segment by segment.  Anchors: libvore/files/path.go          *)
(* (ParsePath, pathMatches, GetFileList).                                   *)
(* Names and patterns are byte sequences; a path is a sequence of names.    *)
EXTENDS Bytes, Json, SequencesExt, TLC

CONSTANTS Tier, OutFile

STAR == 42
RECURSIVE SegMatch(_, _)
SegMatch(n, p) ==
  IF p = <<>> THEN n = <<>>
  ELSE IF p[1] = STAR THEN SegMatch(n, Tail(p)) \/ (n # <<>> /\ SegMatch(Tail(n), p))
  ELSE n # <<>> /\ n[1] = p[1] /\ SegMatch(Tail(n), Tail(p))

(* tree: set of entries [path : <<name, ...>>, dir : BOOLEAN]               *)
PathMatches(path, segs) == Len(path) = Len(segs) /\ \A i \in 1..Len(segs) : SegMatch(path[i], segs[i])
FileList(tree, segs) == {e.path : e \in {x \in tree : ~x.dir /\ PathMatches(x.path, segs)}}

(* ------------------------------------------------------------------ scope *)
A == 97  Bb == 98  DOT == 46
NameAlphabet == {A, Bb, DOT}
MaxN == IF Tier = "quick" THEN 4 ELSE 5
Names == {n \in StringsUpTo(NameAlphabet, 1, MaxN) : n \notin {<<DOT>>, <<DOT, DOT>>}}
Stars(p) == Cardinality({i \in 1..Len(p) : p[i] = STAR})
Patterns == {p \in StringsUpTo(NameAlphabet \cup {STAR}, 1, MaxN) : Stars(p) <= 3 /\ p \notin {<<DOT>>, <<DOT, DOT>>}}

(* one flat directory holding every name as a file, a few also as directory *)
(* names elsewhere                                                          *)
FlatTree == {[path |-> <<n>>, dir |-> FALSE] : n \in Names}

(* a tree of depth 3                                                        *)
D1 == {<<A>>, <<Bb>>, <<A, Bb>>, <<A, DOT, Bb>>}
F  == {<<A>>, <<Bb>>, <<A, DOT, Bb>>, <<Bb, DOT, A>>, <<A, Bb, DOT, A>>}
DeepTree ==
  {[path |-> <<d>>, dir |-> TRUE] : d \in D1} \cup {[path |-> <<f>>, dir |-> FALSE] : f \in F \ D1}
    \cup {[path |-> <<d, e>>, dir |-> TRUE] : d \in D1, e \in {<<A>>, <<Bb, Bb>>}}
    \cup {[path |-> <<d, f>>, dir |-> FALSE] : d \in D1, f \in F \ {<<A>>}}
    \cup {[path |-> <<d, e, f>>, dir |-> FALSE] : d \in D1, e \in {<<A>>, <<Bb, Bb>>}, f \in F}
SegPats == {<<A>>, <<STAR, A>>, <<A, STAR>>, <<A, STAR, Bb>>, <<STAR, DOT, STAR>>, <<Bb, STAR, Bb>>, <<STAR, Bb, STAR>>, <<A, DOT, Bb>>, <<STAR, STAR, A>>}
AllStar(p) == \A i \in 1..Len(p) : p[i] = STAR
FilePats == SegPats \cup {<<STAR>>}
(* a pattern that ends in a slash has an empty last segment: no file name is empty, nothing is listed *)
DeepPats == {<<f>> : f \in FilePats} \cup {<<d, f>> : d \in SegPats, f \in FilePats}
              \cup {<<f, <<>>>> : f \in FilePats} \cup {<<d, f, <<>>>> : d \in {<<A>>, <<A, STAR>>}, f \in FilePats}
              \cup {<<d, e, f>> : d \in {<<A>>, <<A, STAR>>, <<STAR, Bb>>}, e \in {<<A>>, <<STAR, Bb>>, <<Bb, STAR>>}, f \in FilePats}

EntryJ(e) == [path |-> e.path, dir |-> e.dir]
Case(id, tree, pats) ==
  [id |-> id, tree |-> SetToSeq({EntryJ(e) : e \in tree}),
   pats |-> [i \in 1..Len(pats) |-> [segs |-> pats[i], expect |-> SetToSeq(FileList(tree, pats[i]))]]]

(* characters that are special in shell globs but not here: ? [ ] \ stand   *)
(* for themselves                                                           *)
MetaAlphabet == {A, 65, 63, 91, 93, 92}      \* 65 = 'A': matching is case-sensitive
MetaNames == StringsUpTo(MetaAlphabet, 1, 3)
MetaTree == {[path |-> <<n>>, dir |-> FALSE] : n \in MetaNames}
MetaPats == SetToSeq({<<p>> : p \in {q \in StringsUpTo(MetaAlphabet \cup {STAR}, 1, IF Tier = "quick" THEN 3 ELSE 4) : ~AllStar(q) \/ Len(q) = 1}})
FlatPats == SetToSeq({<<p>> : p \in Patterns})
DeepPatSeq == SetToSeq(DeepPats)
(* the same directory listed again after it changed (files removed, files   *)
(* and a sub-directory added): the list is a function of the tree as it is   *)
(* NOW - nothing may be remembered from an earlier listing                   *)
Removed == {e \in DeepTree : ~e.dir /\ e.path[Len(e.path)] = <<Bb, DOT, A>>}
Added == {[path |-> <<<<Bb>>, <<A, A>>>>, dir |-> FALSE], [path |-> <<<<A>>, <<Bb, A>>>>, dir |-> TRUE],
          [path |-> <<<<A>>, <<Bb, A>>, <<A>>>>, dir |-> FALSE], [path |-> <<<<A, A, DOT, Bb>>>>, dir |-> FALSE],
          [path |-> <<<<A>>, <<A, DOT, A>>>>, dir |-> FALSE]}
DeepTree2 == (DeepTree \ Removed) \cup Added
CaseAfter(id, prev, tree, pats) == [x \in DOMAIN Case(id, tree, pats) \cup {"after"} |-> IF x = "after" THEN prev ELSE Case(id, tree, pats)[x]]
ASSUME ndJsonSerialize(OutFile, <<Case(1, FlatTree, FlatPats), Case(2, DeepTree, DeepPatSeq), Case(3, MetaTree, MetaPats),
                                  CaseAfter(4, 2, DeepTree2, DeepPatSeq)>>)
ASSUME PrintT(<<"patterns", Len(FlatPats), Len(DeepPatSeq), "names", Cardinality(Names)>>)

(* properties of the definition itself                                      *)
ASSUME \A n \in StringsUpTo(NameAlphabet, 0, 3) : SegMatch(n, <<STAR>>) /\ SegMatch(n, n) /\ SegMatch(n, <<STAR>> \o n) /\ SegMatch(n, n \o <<STAR>>)
ASSUME SegMatch(<<A, DOT, Bb, DOT, Bb>>, <<STAR, DOT, Bb>>) /\ SegMatch(<<A, Bb, A, Bb>>, <<A, STAR, Bb>>) /\ ~SegMatch(<<A, Bb, A>>, <<A, STAR, Bb>>)
=============================================================================
