----------------------------- MODULE ReaderTrace -----------------------------
(* Trace validation of the buffered reader: the seek/read histories the     *)
(* engine really issues on files (hook H2, libvore/files/verif_on.go) are    *)
(* checked to be behaviours of Reader.tla with the real constants           *)
(* B = H = 4096; every returned chunk (length, first, last, checksum) and   *)
(* every window (min, max, cur) is asserted at every step.                  *)
(* The file content is a known periodic pattern: byte i = pat[i % |pat|].   *)
EXTENDS Integers, Sequences, Json, TLC

CONSTANTS TraceFile,
          Strict      \* TRUE: windows asserted too; FALSE: only the returned bytes and the cursor
Trace == ndJsonDeserialize(TraceFile)

B == 4096
H == 4096

VARIABLES n,          \* size of the current file
          pat,        \* its content pattern
          min, max, cur, roff,
          l
tvars == <<n, pat, min, max, cur, roff, l>>

Ev == Trace[l]
Min2(a, b) == IF a < b THEN a ELSE b
ByteAt(i) == pat[(i % Len(pat)) + 1]

NewStart(o) ==
  LET s0 == IF o - (B \div 2) < 0 THEN 0 ELSE o - (B \div 2)
      fb == IF n - H < 0 THEN n ELSE n - H
  IN IF s0 >= fb THEN (IF n - H < 0 THEN 0 ELSE n - H) ELSE s0

(* window after BufferedFile.Seek(o)                                        *)
WinAfterSeek(mn, mx, o) ==
  IF o < mn \/ o >= mx THEN [min |-> NewStart(o), max |-> NewStart(o) + Min2(B, n - NewStart(o))]
  ELSE [min |-> mn, max |-> mx]

(* BufferedFile.Read(k bytes) from cursor c: final window and cursor        *)
RECURSIVE ReadWin(_, _, _, _, _)
ReadWin(mn, mx, c, need, fuel) ==
  IF need = 0 THEN [min |-> mn, max |-> mx, cur |-> c, ok |-> TRUE]
  ELSE IF fuel = 0 THEN [min |-> mn, max |-> mx, cur |-> c, ok |-> FALSE]
  ELSE LET avail == IF c >= mn /\ c < mx THEN Min2(mx - c, need) ELSE 0
       IN IF avail > 0 THEN ReadWin(mn, mx, c + avail, need - avail, fuel)
          ELSE LET w == WinAfterSeek(mn, mx, c) IN ReadWin(w.min, w.max, c, need, fuel - 1)

RECURSIVE SumFrom(_, _, _)
SumFrom(a, k, acc) == IF k = 0 THEN acc ELSE SumFrom(a + 1, k - 1, (acc + ByteAt(a)) % 65521)

(* the logged chunk is file[a .. a+k)                                        *)
ChunkOK(a, k) ==
  /\ Ev.len = k
  /\ k > 0 => (Ev.first = ByteAt(a) /\ Ev.last = ByteAt(a + k - 1) /\ Ev.sum = SumFrom(a, k, 0))

WindowLogged == Ev.min = min' /\ Ev.max = max' /\ Ev.cur = cur'

TraceInit ==
  /\ l = 2 /\ Trace[1].ev = "open"
  /\ n = Trace[1].n /\ pat = Trace[1].pat
  /\ min = 0 /\ max = Min2(B, Trace[1].n) /\ cur = 0 /\ roff = 0

Open ==
  /\ l <= Len(Trace) /\ Ev.ev = "open"
  /\ n' = Ev.n /\ pat' = Ev.pat
  /\ min' = 0 /\ max' = Min2(B, Ev.n) /\ cur' = 0 /\ roff' = 0
  /\ l' = l + 1

Seek ==
  /\ l <= Len(Trace) /\ Ev.ev = "seek"
  /\ Ev.size = n
  /\ IF Strict
     THEN /\ LET w == WinAfterSeek(min, max, Ev.arg) IN min' = w.min /\ max' = w.max
          /\ cur' = Ev.arg
          /\ WindowLogged
     ELSE min' = Ev.min /\ max' = Ev.max /\ cur' = Ev.arg /\ Ev.cur = Ev.arg
  /\ roff' = Ev.arg
  /\ l' = l + 1
  /\ UNCHANGED <<n, pat>>

(* Reader.Read after a seek (the engine's READ) and the read half of ReadAt *)
Read ==
  /\ l <= Len(Trace) /\ Ev.ev \in {"read", "readat"}
  /\ cur = roff                                  \* the engine's discipline: seek, then read
  /\ IF Ev.arg = 0 \/ roff + Ev.arg - 1 >= n
     THEN /\ Ev.len = 0 /\ UNCHANGED <<min, max, cur>>
     ELSE /\ ChunkOK(cur, Ev.arg)
          /\ IF Strict
             THEN LET r == ReadWin(min, max, cur, Ev.arg, (Ev.arg \div B) + 3)
                  IN r.ok /\ min' = r.min /\ max' = r.max /\ cur' = r.cur
             ELSE min' = Ev.min /\ max' = Ev.max /\ cur' = cur + Ev.arg /\ Ev.cur = cur + Ev.arg
  /\ (Strict => WindowLogged)
  /\ l' = l + 1
  /\ UNCHANGED <<n, pat, roff>>

(* ReadAt refused by its bounds test: nothing moves                         *)
ReadAt0 ==
  /\ l <= Len(Trace) /\ Ev.ev = "readat0"
  /\ (Ev.arg = 0 \/ Ev.off + Ev.arg - 1 >= n)
  /\ Ev.len = 0
  /\ UNCHANGED <<n, pat, min, max, cur, roff>>
  /\ l' = l + 1

TraceNext == Open \/ Seek \/ Read \/ ReadAt0
TraceSpec == TraceInit /\ [][TraceNext]_tvars

WindowOK == 0 <= min /\ min <= max /\ max <= n /\ max - min <= B

HighWater == TLCSet(1, IF TLCGet(1) < l THEN l ELSE TLCGet(1))
ASSUME TLCSet(1, 0)
TraceAccepted ==
  \/ TLCGet(1) = Len(Trace) + 1
  \/ Print(<<"TRACE-REJECTED at line", TLCGet(1), Trace[IF TLCGet(1) <= Len(Trace) THEN TLCGet(1) ELSE Len(Trace)]>>, FALSE)
=============================================================================
