------------------------------ MODULE MC_Expr ------------------------------
(* Model-checking job on the specification of the process language:         *)
(* for every expression of the C11 scope, minimal and full parenthesisation *)
(* parse back (documented precedence levels, left associativity) to the     *)
(* same tree; typing and evaluation agree (a well-typed expression has the  *)
(* value type the checker predicts).                                        *)
EXTENDS ExprScope, TLC

VARIABLE e
Init == e \in C11_Exprs("quick")
Next == UNCHANGED e
Spec == Init /\ [][Next]_e

RoundTripOK == RoundTrip(e)
TypeSound   == Eval(e, MatchEnv).ty = TypeOf(e, TEnv0)
=============================================================================
