------------------------------- MODULE Regex -------------------------------
(* Regular expressions of the supported subset: abstract syntax, concrete   *)
(* syntax (RSrc), the conventional backtracking semantics (RPaths,          *)
(* RegexFindAll: leftmost, priority-ordered, groups numbered by opening     *)
(* parenthesis, a group keeps the text of its last participation), and the  *)
(* documented translation to vore patterns (ToPattern,                      *)
(* docs/language/RegexComparison.md, libvore/ast/parser_regexp.go).          *)
(*                                                                          *)
(* terms: [k:"rc",c] [k:"rdot"] [k:"rset",neg,items] (items [k:"c",c] |     *)
(* [k:"r",a,b]) [k:"resc",c] (c in d D s S) [k:"rgrp",kind,name,body]       *)
(* (kind cap|non|named; name "_n" for numbered groups) [k:"rq",min,max,     *)
(* lazy,atom] [k:"ralt",alts] [k:"rbol"] [k:"reol"] [k:"rref",name]          *)
EXTENDS Semantics

RC(c) == [k |-> "rc", c |-> c]
RDot == [k |-> "rdot"]
RSet(neg, items) == [k |-> "rset", neg |-> neg, items |-> items]
SC(c) == [k |-> "c", c |-> c]
SR(a, b) == [k |-> "r", a |-> a, b |-> b]
REsc(c) == [k |-> "resc", e |-> c]
RGrp(kind, name, body) == [k |-> "rgrp", kind |-> kind, name |-> name, body |-> body]
RQ(mn, mx, lazy, atom) == [k |-> "rq", min |-> mn, max |-> mx, lazy |-> lazy, atom |-> atom]
RAlt(alts) == [k |-> "ralt", alts |-> alts]
RBol == [k |-> "rbol"]
REol == [k |-> "reol"]
RRef(name) == [k |-> "rref", name |-> name]

(* ------------------------------------------------- conventional semantics *)
(* st = [pos, g] ; g maps group names ("_1", "_2", .., or a name) to bytes  *)
EscHas(c, b) == CASE c = "d" -> IsDigit(b) [] c = "D" -> ~IsDigit(b)
                  [] c = "s" -> b \in {32, 9, 10, 13, 12} [] c = "S" -> b \notin {32, 9, 10, 13, 12}
SetItemHas(it, b) == IF it.k = "c" THEN b = it.c ELSE it.a <= b /\ b <= it.b

RECURSIVE RPaths(_, _, _), RSeq(_, _, _, _), RRep(_, _, _, _)
OneByte(t, st, P(_)) ==
  IF st.pos < Len(t) /\ P(At(t, st.pos)) THEN <<[st EXCEPT !.pos = @ + 1]>> ELSE <<>>

RPaths(t, r, st) ==
  CASE r.k = "rc"   -> OneByte(t, st, LAMBDA b : b = r.c)
    [] r.k = "rdot" -> OneByte(t, st, LAMBDA b : b # 10)
    [] r.k = "resc" -> OneByte(t, st, LAMBDA b : EscHas(r.e, b))
    [] r.k = "rset" -> OneByte(t, st, LAMBDA b : (\E j \in 1..Len(r.items) : SetItemHas(r.items[j], b)) # r.neg)
    [] r.k = "rbol" -> IF st.pos = 0 \/ At(t, st.pos - 1) = 10 THEN <<st>> ELSE <<>>
    [] r.k = "reol" -> IF st.pos = Len(t) \/ At(t, st.pos) = 10 THEN <<st>> ELSE <<>>
    [] r.k = "rgrp" ->
         LET P == RSeq(t, r.body, 1, st)
         IN IF r.kind = "non" THEN P
            ELSE [j \in 1..Len(P) |-> [P[j] EXCEPT !.g = Bind(P[j].g, r.name, Slice(t, st.pos, P[j].pos))]]
    [] r.k = "ralt" -> Cat([j \in 1..Len(r.alts) |-> RPaths(t, r.alts[j], st)])
    [] r.k = "rq"   -> RRep(t, r, 0, st)
    [] r.k = "rref" ->
         IF r.name \notin DOMAIN st.g THEN <<>>                 \* a group that did not participate fails
         ELSE LET v == st.g[r.name] n == Len(st.g[r.name])
              IN IF st.pos + n <= Len(t) /\ Slice(t, st.pos, st.pos + n) = v
                 THEN <<[st EXCEPT !.pos = @ + n]>> ELSE <<>>

RSeq(t, rs, i, st) ==
  IF i > Len(rs) THEN <<st>>
  ELSE LET P == RPaths(t, rs[i], st) IN Cat([j \in 1..Len(P) |-> RSeq(t, rs, i + 1, P[j])])

(* k iterations done; repeated bodies of the subset cannot match the empty  *)
(* string, so no empty-iteration rule is needed (an empty iteration is      *)
(* dropped, as every conventional engine does in effect)                    *)
RRep(t, r, k, st) ==
  LET canStop == k >= r.min
      canMore == r.max = -1 \/ k < r.max
      P    == IF canMore THEN RPaths(t, r.atom, st) ELSE <<>>
      more == Cat([j \in 1..Len(P) |-> IF P[j].pos > st.pos \/ k < r.min THEN RRep(t, r, k + 1, P[j]) ELSE <<>>])
      stop == IF canStop THEN <<st>> ELSE <<>>
  IN IF r.lazy THEN stop \o more ELSE more \o stop

RECURSIVE RScan(_, _, _, _, _)
RScan(t, rs, from, n, acc) ==
  IF from >= Len(t) THEN acc
  ELSE LET P == RSeq(t, rs, 1, [pos |-> from, g |-> EmptyEnv])
       IN IF P # <<>> /\ P[1].pos > from
          THEN RScan(t, rs, P[1].pos, n + 1, Append(acc, [s |-> from, e |-> P[1].pos, n |-> n + 1, vars |-> P[1].g]))
          ELSE RScan(t, rs, from + 1, n, acc)
RegexFindAll(t, rs) == RScan(t, rs, 0, 0, <<>>)

(* ------------------------------------------------------------ translation *)
RECURSIVE ToPat(_), ToPatSeq(_), AltPat(_, _)
ToPatSeq(rs) == [i \in 1..Len(rs) |-> ToPat(rs[i])]
EscPat(c) == CASE c = "d" -> Cls("digit") [] c = "D" -> NotCls("digit")
               [] c = "s" -> Cls("whitespace") [] c = "S" -> NotCls("whitespace")
SetItemPat(it) == IF it.k = "c" THEN Lit(<<it.c>>) ELSE Rng(<<it.a>>, <<it.b>>)
AltPat(alts, i) ==
  IF i = Len(alts) THEN ToPat(alts[i]) ELSE Or(Grp(<<ToPat(alts[i])>>), AltPat(alts, i + 1))
ToPat(r) ==
  CASE r.k = "rc"   -> Lit(<<r.c>>)
    [] r.k = "rdot" -> NotLit(<<10>>)
    [] r.k = "resc" -> EscPat(r.e)
    [] r.k = "rset" -> [k |-> "in", items |-> [j \in 1..Len(r.items) |-> SetItemPat(r.items[j])], neg |-> r.neg]
    [] r.k = "rbol" -> Anc("linestart")
    [] r.k = "reol" -> Anc("lineend")
    [] r.k = "rgrp" -> IF r.kind = "non" THEN Grp(ToPatSeq(r.body))
                       ELSE Grp(<<Cap(r.name, Grp(ToPatSeq(r.body)))>>)
    [] r.k = "ralt" -> AltPat(r.alts, 1)
    [] r.k = "rq"   -> Loop(r.min, r.max, r.lazy, ToPat(r.atom))
    [] r.k = "rref" -> Ref(r.name)
(* the body of `find all @/re/`                                             *)
ToPattern(rs) == <<Grp(ToPatSeq(rs))>>

(* --------------------------------------------------------- concrete syntax *)
Specials == {40, 41, 91, 93, 123, 125, 63, 42, 43, 124, 92, 94, 36, 46, 47}
RECURSIVE RSrc(_), RSrcSeq(_), AltSrc(_, _)
StrBytes(s) == CASE s = "_1" -> <<49>> [] s = "_2" -> <<50>> [] s = "_3" -> <<51>> [] s = "_4" -> <<52>>
                 [] s = "_5" -> <<53>> [] s = "_6" -> <<54>> [] s = "_7" -> <<55>> [] s = "_8" -> <<56>> [] s = "_9" -> <<57>>
                 [] s = "_10" -> <<49, 48>> [] s = "_11" -> <<49, 49>> [] s = "_12" -> <<49, 50>>
                 [] s = "n" -> <<110>> [] s = "m" -> <<109>> [] OTHER -> <<120>>
CharSrc(c) == IF c \in Specials THEN <<92, c>> ELSE <<c>>
SetItemSrc(it) == IF it.k = "c" THEN <<it.c>> ELSE <<it.a, 45, it.b>>
QuantSrc(mn, mx) ==
  IF mn = 0 /\ mx = -1 THEN <<42>> ELSE IF mn = 1 /\ mx = -1 THEN <<43>> ELSE IF mn = 0 /\ mx = 1 THEN <<63>>
  ELSE IF mx = -1 THEN <<123>> \o Itoa(mn) \o <<44, 125>>
  ELSE IF mn = mx THEN <<123>> \o Itoa(mn) \o <<125>>
  ELSE <<123>> \o Itoa(mn) \o <<44>> \o Itoa(mx) \o <<125>>
RSrcSeq(rs) == Cat([i \in 1..Len(rs) |-> RSrc(rs[i])])
AltSrc(alts, i) == IF i = Len(alts) THEN RSrc(alts[i]) ELSE RSrc(alts[i]) \o <<124>> \o AltSrc(alts, i + 1)
RSrc(r) ==
  CASE r.k = "rc"   -> CharSrc(r.c)
    [] r.k = "rdot" -> <<46>>
    [] r.k = "resc" -> <<92>> \o (CASE r.e = "d" -> <<100>> [] r.e = "D" -> <<68>> [] r.e = "s" -> <<115>> [] r.e = "S" -> <<83>>)
    [] r.k = "rset" -> <<91>> \o (IF r.neg THEN <<94>> ELSE <<>>) \o Cat([j \in 1..Len(r.items) |-> SetItemSrc(r.items[j])]) \o <<93>>
    [] r.k = "rbol" -> <<94>>
    [] r.k = "reol" -> <<36>>
    [] r.k = "rgrp" -> <<40>> \o (CASE r.kind = "non" -> <<63, 58>> [] r.kind = "named" -> <<63, 60>> \o StrBytes(r.name) \o <<62>> [] OTHER -> <<>>)
                         \o RSrcSeq(r.body) \o <<41>>
    [] r.k = "ralt" -> AltSrc(r.alts, 1)
    [] r.k = "rq"   -> RSrc(r.atom) \o QuantSrc(r.min, r.max) \o (IF r.lazy THEN <<63>> ELSE <<>>)
    [] r.k = "rref" -> IF r.name \in {"_1", "_2", "_3", "_4", "_5", "_6", "_7", "_8", "_9", "_10", "_11", "_12"} THEN <<92>> \o StrBytes(r.name)
                       ELSE <<92, 107, 60>> \o StrBytes(r.name) \o <<62>>
=============================================================================
