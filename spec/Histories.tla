------------------------------ MODULE Histories ------------------------------
(* Sequential sessions: objects prog[i] created by Compile(src) and used by *)
(* Run(i, text), in any order, the same object reused, the same source      *)
(* compiled again.  The specification of a call's result is a function of   *)
(* (source, text) only -- Result below is an uninterpreted table -- so every *)
(* history must reproduce it.  TLC enumerates all histories up to MaxLen;   *)
(* each is replayed on live objects.                                        *)
EXTENDS Integers, Sequences, Json, TLC

CONSTANTS NSrc, NText, MaxLen,
          FailSrc     \* index of a source that Compile rejects (creates no object)

VARIABLES hist, objs      \* steps so far; objs[j] = source index of the j-th compiled object
hvars == <<hist, objs>>

Init == hist = <<>> /\ objs = <<>>

Compile(k) ==
  /\ Len(hist) < MaxLen
  /\ hist' = Append(hist, [op |-> "compile", src |-> k])
  /\ objs' = IF k = FailSrc THEN objs ELSE Append(objs, k)
Run(j, t) ==
  /\ Len(hist) < MaxLen /\ j <= Len(objs)
  /\ hist' = Append(hist, [op |-> "run", obj |-> j - 1, text |-> t])
  /\ UNCHANGED objs
Next == (\E k \in 0..(NSrc - 1) : Compile(k)) \/ (\E j \in 1..MaxLen : \E t \in 0..(NText - 1) : Run(j, t))
Spec == Init /\ [][Next]_hvars

(* a run's result depends on (source of its object, text) only: two runs of  *)
(* a history with the same pair are required to agree -- checked on the      *)
(* replay; here: the pair is well-defined for every run step                 *)
RunsWellFormed == \A i \in 1..Len(hist) : hist[i].op = "run" => hist[i].obj < Len(objs)

Emit == (Len(hist) = MaxLen /\ \E i \in 1..Len(hist) : hist[i].op = "run") => PrintT(ToJson([steps |-> hist]))
=============================================================================
