----------------------------- MODULE RegexScope -----------------------------
(* The quantifier of C14: regexes of the supported subset whose repeated    *)
(* bodies cannot match the empty string, with their capture groups          *)
(* numbered by opening parenthesis, as cases for the evaluator.             *)
EXTENDS Regex, SequencesExt, Json, TLC

CONSTANTS Tier, OutFile

ca == 97  cb == 98  c1 == 49
Atoms == { RC(ca), RC(cb), RC(46), RC(42), RDot, RSet(FALSE, <<SC(ca), SC(cb)>>), RSet(TRUE, <<SC(ca)>>), RSet(FALSE, <<SR(ca, cb), SC(c1)>>),
           REsc("d"), REsc("s"), REsc("D"), REsc("S") }
AtomsCore == { RC(ca), RC(cb), RDot, RSet(FALSE, <<SC(ca), SC(cb)>>), REsc("d") }
Quants == { <<0, -1>>, <<1, -1>>, <<0, 1>>, <<2, 2>>, <<1, 2>>, <<2, -1>>, <<0, 2>> }
Q(X) == {RQ(q[1], q[2], lz, x) : q \in Quants, lz \in BOOLEAN, x \in X}
QCore(X) == {RQ(q[1], q[2], lz, x) : q \in {<<0, -1>>, <<1, -1>>, <<0, 1>>, <<2, 2>>}, lz \in BOOLEAN, x \in X}

G1(kind, name) == {RGrp(kind, name, <<x>>) : x \in AtomsCore} \cup {RGrp(kind, name, <<x, y>>) : x \in {RC(ca), RDot}, y \in {RC(cb), REsc("d")}}
                    \cup {RGrp(kind, name, <<RAlt(<<x, y>>)>>) : x \in {RC(ca), RDot}, y \in {RC(cb), REsc("d")}}
                    \cup {RGrp(kind, name, <<q>>) : q \in QCore({RC(ca), RDot})}

Regexes ==
     {<<x>> : x \in Atoms} \cup {<<x, y>> : x \in AtomsCore, y \in AtomsCore}
  \cup {<<q>> : q \in Q(Atoms)} \cup {<<q, RC(cb)>> : q \in Q(AtomsCore)} \cup {<<RC(ca), q>> : q \in Q(AtomsCore)}
  \cup {<<RAlt(<<x, y>>)>> : x \in AtomsCore, y \in AtomsCore} \cup {<<RAlt(<<x, y, RC(c1)>>)>> : x \in {RC(ca), RDot}, y \in {RC(cb), REsc("d")}}
  \cup {<<RAlt(<<q, RC(cb)>>)>> : q \in QCore({RC(ca)})} \cup {<<RAlt(<<RC(cb), q>>)>> : q \in QCore({RC(ca)})}
  \cup {<<g>> : g \in G1("cap", "_1") \cup G1("non", "") \cup G1("named", "n")}
  \cup {<<g, RC(cb)>> : g \in G1("cap", "_1")} \cup {<<RC(ca), g>> : g \in G1("non", "")}
  \* quantified groups (defect class: unrolled copies), greedy and lazy
  \cup {<<RQ(q[1], q[2], lz, g), RC(cb)>> : q \in {<<0, -1>>, <<1, -1>>, <<0, 1>>, <<2, 2>>, <<1, 2>>}, lz \in BOOLEAN,
                                            g \in {RGrp("cap", "_1", <<RC(ca)>>), RGrp("cap", "_1", <<RAlt(<<RC(ca), RC(cb)>>)>>),
                                                   RGrp("non", "", <<RC(ca), RDot>>), RGrp("named", "n", <<RSet(FALSE, <<SC(ca), SC(cb)>>)>>)}}
  \* back-references, numbered and named
  \cup {<<g, RRef("_1")>> : g \in G1("cap", "_1")} \cup {<<g, RC(cb), RRef("n")>> : g \in G1("named", "n")}
  \cup {<<RGrp("cap", "_1", <<q>>), RRef("_1")>> : q \in QCore({RDot, RC(ca)})}
  \cup {<<RGrp("cap", "_1", <<RDot>>), RGrp("cap", "_2", <<RDot>>), RRef("_2"), RRef("_1")>>,
        <<RGrp("cap", "_1", <<RGrp("cap", "_2", <<RC(ca)>>), RC(cb)>>), RRef("_1")>>,
        <<RGrp("cap", "_1", <<RGrp("cap", "_2", <<RC(ca)>>), RC(cb)>>), RRef("_2")>>,
        <<RGrp("cap", "_1", <<RGrp("cap", "_2", <<RDot>>), RGrp("cap", "_3", <<RDot>>)>>), RRef("_3"), RRef("_2")>>,
        <<RGrp("cap", "_1", <<RC(ca), RGrp("named", "n", <<RDot>>)>>), RGrp("cap", "_2", <<RC(cb)>>), RRef("n")>>,
        <<RQ(1, -1, FALSE, RGrp("cap", "_1", <<RDot>>)), RRef("_1")>>,
        <<RQ(0, 1, FALSE, RGrp("cap", "_1", <<RC(ca)>>)), RC(cb), RRef("_1")>>}
  \* a group that takes no number before one that does
  \cup {<<RGrp("non", "", <<x>>), RGrp("cap", "_1", <<y>>)>> : x \in {RC(ca), RAlt(<<RC(ca), RC(cb)>>)}, y \in {RC(cb), RDot}}
  \cup {<<RGrp("non", "", <<RC(ca)>>), RGrp("cap", "_1", <<RDot>>), RRef("_1")>>,
        <<RGrp("named", "n", <<RDot>>), RGrp("cap", "_1", <<RDot>>), RRef("_1"), RRef("n")>>,
        <<RGrp("cap", "_1", <<RGrp("non", "", <<RC(ca)>>), RGrp("cap", "_2", <<RDot>>)>>), RRef("_2")>>,
        <<RQ(0, 1, FALSE, RGrp("non", "", <<RC(cb)>>)), RGrp("cap", "_1", <<RC(ca)>>), RGrp("cap", "_2", <<RDot>>), RRef("_2")>>}
  \* line anchors
  \cup {<<RBol, x>> : x \in AtomsCore} \cup {<<x, REol>> : x \in AtomsCore} \cup {<<RBol, q, REol>> : q \in QCore({RDot, RC(ca)})}
  \cup {<<RC(ca), REol, RSet(TRUE, <<SC(ca)>>), RBol, RC(cb)>>}

Uses(rs, c) == \E i \in 1..Len(rs) : rs[i].k = "resc" \/ (rs[i].k = "rq" /\ rs[i].atom.k = "resc")
Sigma(rs) == {ca, cb, c1, 32, 10} \cup (IF \E i \in 1..Len(rs) : rs[i] \in {RC(46), RC(42)} \/ (rs[i].k = "rq" /\ rs[i].atom \in {RC(46), RC(42)}) THEN {46, 42} ELSE {})

FindAllAt == <<102, 105, 110, 100, 32, 97, 108, 108, 32, 64, 47>>     \* "find all @/"
MkRegexCase(id, rs) ==
  [id |-> id, regex |-> rs,
   cmds |-> <<[kind |-> "find", amt |-> [k |-> "all"], body |-> ToPattern(rs)]>>,
   srcbytes |-> FindAllAt \o RSrcSeq(rs) \o <<47>>,
   resrc |-> RSrcSeq(rs),
   sigma |-> SetToSeq(Sigma(rs)), lo |-> 1, hi |-> IF Tier = "quick" THEN 3 ELSE 4]

All == SetToSeq(Regexes)

(* ten and more groups: two-digit group numbers and back-references, on      *)
(* explicit longer texts                                                     *)
GN == <<"_1", "_2", "_3", "_4", "_5", "_6", "_7", "_8", "_9", "_10", "_11", "_12">>
Groups(n) == [j \in 1..n |-> RGrp("cap", GN[j], <<RDot>>)]
ManyGroups == << Groups(10) \o <<RRef("_10")>>, Groups(10) \o <<RRef("_1"), RSet(FALSE, <<SC(48)>>)>>,     \* \1[0]: group 1, then the character 0 (written \10 it would be group 10) Groups(11) \o <<RRef("_11"), RRef("_1")>>,
                 Groups(12) \o <<RRef("_12"), RRef("_10")>>, Groups(9) \o <<RRef("_9")>>,
                 <<RGrp("non", "", <<RC(ca)>>)>> \o Groups(10) \o <<RRef("_10"), RRef("_2")>> >>
ab(n) == [j \in 1..n |-> IF j % 2 = 1 THEN ca ELSE cb]
ManyTexts == << ab(10) \o <<cb>>, ab(10) \o <<ca, 48>>, ab(10) \o <<cb, ca>>, ab(11) \o <<ca, ca>>, ab(12) \o <<cb, cb>>, ab(9) \o <<ca>>,
                ab(9) \o <<cb>>, <<ca>> \o ab(10) \o <<cb, cb>>, ab(12) \o <<cb, cb, ca, 48>>, ab(10) \o <<cb, 48>> >>
BigQuants == << <<RQ(10, 10, FALSE, RC(ca))>>, <<RQ(12, -1, FALSE, RC(ca)), RC(cb)>>, <<RQ(2, 13, FALSE, RC(ca)), RC(cb)>>, <<RQ(10, 12, TRUE, RC(ca))>>,
                <<RQ(11, 11, FALSE, RSet(FALSE, <<SC(ca), SC(cb)>>))>>, <<RC(cb), RQ(0, 10, FALSE, RC(ca)), RC(cb)>> >>
as(n) == [j \in 1..n |-> ca]
BigQTexts == << as(1), as(9), as(10), as(11), as(12) \o <<cb>>, as(13) \o <<cb>>, as(14) \o <<cb>>, as(21), as(21) \o <<cb>>, as(31) \o <<cb>>, <<cb>> \o as(10) \o <<cb>>,
                <<cb>> \o as(11) \o <<cb>>, <<cb, cb>>, ab(11), ab(12) >>
MkBigQCase(id, rs) ==
  [id |-> id, regex |-> rs,
   cmds |-> <<[kind |-> "find", amt |-> [k |-> "all"], body |-> ToPattern(rs)]>>,
   srcbytes |-> FindAllAt \o RSrcSeq(rs) \o <<47>>, resrc |-> RSrcSeq(rs), texts |-> BigQTexts]
MkManyCase(id, rs) ==
  [id |-> id, regex |-> rs,
   cmds |-> <<[kind |-> "find", amt |-> [k |-> "all"], body |-> ToPattern(rs)]>>,
   srcbytes |-> FindAllAt \o RSrcSeq(rs) \o <<47>>, resrc |-> RSrcSeq(rs), texts |-> ManyTexts]
(* one regular expression written as several literals in a row: the groups  *)
(* are numbered through the whole command, whatever the literals' texts      *)
SplitPairs == << << <<RGrp("cap", "_1", <<RC(ca)>>)>>, <<RGrp("cap", "_2", <<RC(ca)>>)>> >>,
                 << <<RGrp("cap", "_1", <<RDot>>)>>, <<RGrp("cap", "_2", <<RDot>>), RRef("_1")>> >>,
                 << <<RGrp("cap", "_1", <<RC(ca)>>), RGrp("cap", "_2", <<RC(cb)>>)>>, <<RGrp("cap", "_3", <<RC(ca)>>), RRef("_2")>> >>,
                 << <<RC(ca), RGrp("cap", "_1", <<RDot>>)>>, <<RC(ca), RGrp("cap", "_2", <<RDot>>)>> >>,
                 << <<RGrp("non", "", <<RC(ca)>>)>>, <<RGrp("cap", "_1", <<RC(cb)>>), RRef("_1")>> >> >>
MkSplitCase(id, pr) ==
  [id |-> id, regex |-> pr[1] \o pr[2],
   cmds |-> <<[kind |-> "find", amt |-> [k |-> "all"], body |-> ToPattern(pr[1] \o pr[2])]>>,
   srcbytes |-> FindAllAt \o RSrcSeq(pr[1]) \o <<47, 32, 64, 47>> \o RSrcSeq(pr[2]) \o <<47>>, resrc |-> RSrcSeq(pr[1] \o pr[2]),
   split |-> TRUE, sigma |-> SetToSeq({ca, cb, c1}), lo |-> 1, hi |-> IF Tier = "quick" THEN 4 ELSE 5]
ASSUME ndJsonSerialize(OutFile, [i \in 1..Len(All) |-> MkRegexCase(i, All[i])] \o [i \in 1..Len(ManyGroups) |-> MkManyCase(Len(All) + i, ManyGroups[i])]
                                  \o [i \in 1..Len(SplitPairs) |-> MkSplitCase(Len(All) + Len(ManyGroups) + i, SplitPairs[i])]
                                  \o [i \in 1..Len(BigQuants) |-> MkBigQCase(Len(All) + Len(ManyGroups) + Len(SplitPairs) + i, BigQuants[i])])
ASSUME PrintT(<<"cases", Len(All)>>)
=============================================================================
