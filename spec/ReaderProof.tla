---------------------------- MODULE ReaderProof ----------------------------
(* Unbounded file size, by proof: the window invariant of the buffered file *)
(* reader (libvore/files/bufferedfile.go, Seek and Read) is inductive for   *)
(* EVERY file size N (Apalache checks the same invariant up to N = 10^5).   *)
(* Checked with tlapm (SMT back end).                                       *)
EXTENDS Integers, TLAPS

CONSTANT N
ASSUME NNat == N \in Nat

VARIABLES min, max, cur
vars == <<min, max, cur>>

B == 4096
H == 4096

Min2(a, b) == IF a < b THEN a ELSE b

NewStart(o) ==
  LET s0 == IF o - 2048 < 0 THEN 0 ELSE o - 2048
      fb == IF N - H < 0 THEN N ELSE N - H
  IN IF s0 >= fb THEN (IF N - H < 0 THEN 0 ELSE N - H) ELSE s0

Init == min = 0 /\ max = Min2(B, N) /\ cur = 0

Seek(o) ==
  /\ o \in 0..N
  /\ IF o < min \/ o >= max
     THEN min' = NewStart(o) /\ max' = NewStart(o) + Min2(B, N - NewStart(o))
     ELSE UNCHANGED <<min, max>>
  /\ cur' = o

Advance(k) ==
  /\ k \in 1..B
  /\ cur >= min /\ cur + k <= max
  /\ cur' = cur + k
  /\ UNCHANGED <<min, max>>

Next == (\E o \in 0..N : Seek(o)) \/ (\E k \in 1..B : Advance(k))
Spec == Init /\ [][Next]_vars

IndInv ==
  /\ min \in Nat /\ max \in Nat /\ cur \in Nat
  /\ min <= max /\ max <= N /\ max - min <= B
  /\ max - min = Min2(B, N - min)
  /\ cur <= N
  /\ (cur < N => (min <= cur /\ cur <= max))

(* after a seek below the end of the file the window holds the cursor: a    *)
(* following Read makes progress                                            *)
SeekCovers == \A o \in 0..N : (Seek(o) /\ o < N /\ IndInv) => (min' <= o /\ o < max')

LEMMA InitInv == Init => IndInv
  BY NNat DEF Init, IndInv, Min2, B

LEMMA NewStartFacts ==
  ASSUME NEW o \in 0..N
  PROVE  /\ NewStart(o) \in Nat /\ NewStart(o) <= o /\ NewStart(o) <= N
         /\ (o < N => o < NewStart(o) + Min2(B, N - NewStart(o)))
         /\ NewStart(o) + Min2(B, N - NewStart(o)) <= N
  BY NNat DEF NewStart, Min2, B, H

LEMMA SeekInv ==
  ASSUME IndInv, NEW o \in 0..N, Seek(o)
  PROVE  IndInv'
  <1>1. CASE o < min \/ o >= max
    <2>1. min' = NewStart(o) /\ max' = NewStart(o) + Min2(B, N - NewStart(o)) /\ cur' = o
      BY <1>1 DEF Seek
    <2> QED BY <2>1, NewStartFacts, NNat DEF IndInv, Min2, B
  <1>2. CASE ~(o < min \/ o >= max)
    <2>1. min' = min /\ max' = max /\ cur' = o
      BY <1>2 DEF Seek
    <2> QED BY <2>1, <1>2, NNat DEF IndInv, Min2, B
  <1> QED BY <1>1, <1>2

LEMMA AdvanceInv ==
  ASSUME IndInv, NEW k \in 1..B, Advance(k)
  PROVE  IndInv'
  BY NNat DEF Advance, IndInv, Min2, B

THEOREM Safety == Spec => []IndInv
  <1>1. Init => IndInv BY InitInv
  <1>2. IndInv /\ [Next]_vars => IndInv'
    <2> SUFFICES ASSUME IndInv, [Next]_vars PROVE IndInv' OBVIOUS
    <2>1. CASE \E o \in 0..N : Seek(o) BY <2>1, SeekInv
    <2>2. CASE \E k \in 1..B : Advance(k) BY <2>2, AdvanceInv
    <2>3. CASE UNCHANGED vars BY <2>3 DEF vars, IndInv
    <2> QED BY <2>1, <2>2, <2>3 DEF Next
  <1> QED BY <1>1, <1>2, PTL DEF Spec

THEOREM Covers == SeekCovers
  <1> SUFFICES ASSUME NEW o \in 0..N, Seek(o), o < N, IndInv PROVE min' <= o /\ o < max'
    BY DEF SeekCovers
  <1>1. CASE o < min \/ o >= max
    BY <1>1, NewStartFacts DEF Seek
  <1>2. CASE ~(o < min \/ o >= max)
    <2>1. min' = min /\ max' = max BY <1>2 DEF Seek
    <2> QED BY <2>1, <1>2, NNat DEF IndInv
  <1> QED BY <1>1, <1>2
=============================================================================
