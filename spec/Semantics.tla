----------------------------- MODULE Semantics -----------------------------
(* Reference semantics of the vore search language at AST level: what a     *)
(* pattern MEANS.  Paths(cx, e, st) is the ORDERED sequence of states in    *)
(* which expression e can end when started in state st; earliest = highest  *)
(* priority.  "Scanning left to right and taking the first complete match   *)
(* in priority order" is Head(Paths(..)).  See DESIGN.md Appendix A.         *)
(*                                                                          *)
(* cx = [t : text, D : name -> [es, pred, kind], q : quirk cells]           *)
(* st = [pos : 0-based offset, env : name -> bytes]                         *)
EXTENDS Expr

(* ------------------------------------------------------- AST constructors *)
Lit(s)        == [k |-> "lit", s |-> s, neg |-> FALSE, ci |-> FALSE]
NotLit(s)     == [k |-> "lit", s |-> s, neg |-> TRUE,  ci |-> FALSE]
CiLit(s)      == [k |-> "lit", s |-> s, neg |-> FALSE, ci |-> TRUE]
Cls(c)        == [k |-> "cls", c |-> c, neg |-> FALSE]
NotCls(c)     == [k |-> "cls", c |-> c, neg |-> TRUE]
Anc(c)        == [k |-> "anc", c |-> c, neg |-> FALSE]
NotAnc(c)     == [k |-> "anc", c |-> c, neg |-> TRUE]
Whole(c)      == [k |-> "whole", c |-> c, neg |-> FALSE]
Grp(es)       == [k |-> "seq", es |-> es]
Or(l, r)      == [k |-> "or", l |-> l, r |-> r]
In(items)     == [k |-> "in", items |-> items, neg |-> FALSE]
NotIn(items)  == [k |-> "in", items |-> items, neg |-> TRUE]
Rng(a, b)     == [k |-> "rng", a |-> a, b |-> b]
Loop(mn, mx, few, body) == [k |-> "loop", min |-> mn, max |-> mx, few |-> few, body |-> body, name |-> ""]
Cap(name, body) == [k |-> "cap", name |-> name, body |-> body]
Sub(name, es) == [k |-> "sub", name |-> name, es |-> es]
Ref(name)     == [k |-> "ref", name |-> name]

ClassNames  == {"any", "whitespace", "digit", "upper", "lower", "letter"}
AnchorNames == {"filestart", "fileend", "linestart", "lineend", "wordstart", "wordend"}

(* ------------------------------------------------------------ quirk cells *)
(* Cells where the documents are silent and the code's answer is odd.  The  *)
(* oracle evaluates a case under every assignment of the cells the program  *)
(* can consult; it abstains when the result depends on them.                *)
(*   wsN : `word start` exactly at end of input            (code: yes)      *)
(*   we0 : `word end` exactly at offset 0                  (code: yes)      *)
(*   weN : `word end` at end of input after a non-word byte (code: yes)     *)
QuirkCode == [wsN |-> TRUE,  we0 |-> TRUE,  weN |-> TRUE]
QuirkSane == [wsN |-> FALSE, we0 |-> FALSE, weN |-> FALSE]
AllQuirks == [wsN : BOOLEAN, we0 : BOOLEAN, weN : BOOLEAN]

(* ---------------------------------------------------------------- helpers *)
EmptyEnv == [x \in {} |-> <<>>]
Bind(env, x, v) == [y \in DOMAIN env \cup {x} |-> IF y = x THEN v ELSE env[y]]

(* Named loops scope the variables bound inside them: `L` holds, per         *)
(* iteration ("0", "1", ...), the map of the names bound in that iteration   *)
(* (strings in .s, nested named loops in .l).  A state carries the stack sc  *)
(* of the named loops it is inside of; a binding goes to the innermost one,  *)
(* else to the top level (env: strings, lenv: loops).  A back-reference sees *)
(* the top-level strings only (searchengine.go INSERTVARIABLE / MATCHVAR).   *)
EmptyIM == [s |-> EmptyEnv, l |-> EmptyEnv]
ItKey(k) == ToString(k)
PushScope(st, name) == [st EXCEPT !.sc = Append(@, [name |-> name, it |-> 0, vars |-> (ItKey(0) :> EmptyIM)])]
NextIter(st) ==
  LET n == Len(st.sc) top == st.sc[Len(st.sc)]
  IN [st EXCEPT !.sc[n] = [top EXCEPT !.it = @ + 1, !.vars = (ItKey(top.it + 1) :> EmptyIM) @@ top.vars]]
BindStr(st, x, v) ==
  IF st.sc = <<>> THEN [st EXCEPT !.env = Bind(@, x, v)]
  ELSE LET n == Len(st.sc) key == ItKey(st.sc[Len(st.sc)].it)
       IN [st EXCEPT !.sc[n].vars[key].s = Bind(@, x, v)]
BindLoop(st, x, lv) ==
  IF st.sc = <<>> THEN [st EXCEPT !.lenv = Bind(@, x, lv)]
  ELSE LET n == Len(st.sc) key == ItKey(st.sc[Len(st.sc)].it)
       IN [st EXCEPT !.sc[n].vars[key].l = Bind(@, x, lv)]
PopScope(st) ==
  LET top == st.sc[Len(st.sc)]
  IN BindLoop([st EXCEPT !.sc = SubSeq(@, 1, Len(@) - 1)], top.name, top.vars)
RECURSIVE FlatIM(_), FlatLoop(_)
FlatIM(im) == [x \in DOMAIN im.s \cup DOMAIN im.l |-> IF x \in DOMAIN im.l THEN FlatLoop(im.l[x]) ELSE im.s[x]]
FlatLoop(lv) == [k \in DOMAIN lv |-> FlatIM(lv[k])]
VarsOf(st) == FlatIM([s |-> st.env, l |-> st.lenv])
Adv(st, k) == [st EXCEPT !.pos = @ + k]
N(cx) == Len(cx.t)

ClassHas(c, b) ==
  CASE c = "any"        -> TRUE
    [] c = "whitespace" -> IsSpace(b)
    [] c = "digit"      -> IsDigit(b)
    [] c = "upper"      -> IsUpper(b)
    [] c = "lower"      -> IsLower(b)
    [] c = "letter"     -> IsLetter(b)

AnchorHolds(cx, c, pos) ==
  LET t == cx.t  n == Len(cx.t) IN
  CASE c = "filestart" -> pos = 0
    [] c = "fileend"   -> pos = n
    [] c = "linestart" -> pos = 0 \/ At(t, pos - 1) = 10
    [] c = "lineend"   -> \/ pos = n
                          \/ At(t, pos) = 10
                          \/ (pos + 2 <= n /\ At(t, pos) = 13 /\ At(t, pos + 1) = 10)
    [] c = "wordstart" -> IF pos = n THEN cx.q.wsN
                          ELSE IsWordByte(At(t, pos)) /\ (pos = 0 \/ ~IsWordByte(At(t, pos - 1)))
    [] c = "wordend"   -> IF pos = 0 THEN cx.q.we0
                          ELSE IF pos = n THEN (IsWordByte(At(t, pos - 1)) \/ cx.q.weN)
                          ELSE ~IsWordByte(At(t, pos)) /\ IsWordByte(At(t, pos - 1))

(* a literal of k > 0 bytes                                                 *)
LitPaths(cx, e, st) ==
  LET k == Len(e.s) IN
  IF k = 0 \/ st.pos + k > N(cx) THEN <<>>
  ELSE LET sl == Slice(cx.t, st.pos, st.pos + k)
           eq == IF e.ci THEN EqFold(sl, e.s) ELSE sl = e.s
       IN IF eq # e.neg THEN <<Adv(st, k)>> ELSE <<>>

ClsPaths(cx, e, st) ==
  IF st.pos >= N(cx) THEN <<>>
  ELSE IF ClassHas(e.c, At(cx.t, st.pos)) # e.neg THEN <<Adv(st, 1)>> ELSE <<>>

(* a range 'a' to 'b': the slice of Len(b) bytes lexicographically between.  *)
(* End points of different lengths are outside the documents; the engine     *)
(* then tries the lengths from Len(b) down to Len(a) -- transcribed.         *)
RECURSIVE RngTry(_, _, _, _)
RngTry(cx, e, st, k) ==
  IF k < Len(e.a) \/ k < 1 THEN <<>>
  ELSE IF st.pos + k <= N(cx)
          /\ LexLE(e.a, Slice(cx.t, st.pos, st.pos + k)) /\ LexLE(Slice(cx.t, st.pos, st.pos + k), e.b)
       THEN <<Adv(st, k)>>
  ELSE RngTry(cx, e, st, k - 1)
RngPaths(cx, e, st) == RngTry(cx, e, st, Len(e.b))

(* whole file/line/word: transcribed from the engine; the documents give no *)
(* rule for starting positions that are not the start of the unit, so these *)
(* constructs are outside the absolute oracle (Absolute below) and are used *)
(* for the relational, well-formedness and crash/termination properties.    *)
RECURSIVE WholeLineEnd(_, _), WholeWordEnd(_, _)
WholeLineEnd(cx, p) ==     \* p = offset after consuming one byte
  IF p = N(cx) THEN p
  ELSE IF At(cx.t, p) = 10 \/ (p + 2 <= N(cx) /\ At(cx.t, p) = 13 /\ At(cx.t, p + 1) = 10) THEN p
  ELSE WholeLineEnd(cx, p + 1)
WholeWordEnd(cx, p) ==
  IF p = N(cx) THEN p
  ELSE IF ~IsWordByte(At(cx.t, p)) /\ IsWordByte(At(cx.t, p - 1)) THEN p
  ELSE WholeWordEnd(cx, p + 1)

WholePaths(cx, e, st) ==
  LET t == cx.t  n == Len(cx.t)  pos == st.pos IN
  CASE e.c = "file" ->
         IF pos # 0 THEN (IF e.neg THEN <<st>> ELSE <<>>)
         ELSE IF e.neg THEN <<>> ELSE <<Adv(st, n)>>
    [] e.c = "line" ->
         IF (pos # 0 /\ At(t, pos - 1) # 10) \/ pos = n
         THEN (IF e.neg THEN <<st>> ELSE <<>>)
         ELSE IF e.neg THEN <<>> ELSE <<[st EXCEPT !.pos = WholeLineEnd(cx, pos + 1)]>>
    [] e.c = "word" ->
         IF (pos # 0 /\ pos < n /\ (~IsWordByte(At(t, pos)) \/ IsWordByte(At(t, pos - 1)))) \/ pos = n
         THEN (IF e.neg THEN <<st>> ELSE <<>>)
         ELSE IF e.neg THEN <<>> ELSE <<[st EXCEPT !.pos = WholeWordEnd(cx, pos + 1)]>>

ItemWidth(it) == CASE it.k = "lit" -> Len(it.s) [] it.k = "cls" -> 1 [] it.k = "rng" -> Len(it.b)
MaxItemWidth(items) == MaxOf({ItemWidth(items[i]) : i \in 1..Len(items)})

(* environment handed to a predicate                                        *)
PredEnv(m) == [x \in {"match", "matchLength"} |-> IF x = "match" THEN VS(m) ELSE VN(Len(m))]

(* ------------------------------------------------------------------ Paths *)
RECURSIVE Paths(_, _, _), SeqPaths(_, _, _, _), Opt(_, _, _, _), Mand(_, _, _, _), CallPaths(_, _, _), NOpt(_, _, _, _)

Item(cx, it, st) ==
  CASE it.k = "lit" -> LitPaths(cx, it, st)
    [] it.k = "cls" -> ClsPaths(cx, it, st)
    [] it.k = "rng" -> RngPaths(cx, it, st)

Paths(cx, e, st) ==
  CASE e.k = "lit"   -> LitPaths(cx, e, st)
    [] e.k = "cls"   -> ClsPaths(cx, e, st)
    [] e.k = "rng"   -> RngPaths(cx, e, st)
    [] e.k = "anc"   -> IF AnchorHolds(cx, e.c, st.pos) # e.neg THEN <<st>> ELSE <<>>
    [] e.k = "whole" -> WholePaths(cx, e, st)
    [] e.k = "seq"   -> SeqPaths(cx, e.es, 1, st)
    [] e.k = "or"    -> Paths(cx, e.l, st) \o Paths(cx, e.r, st)
    [] e.k = "in"    ->
         IF ~e.neg THEN Cat([i \in 1..Len(e.items) |-> Item(cx, e.items[i], st)])
         ELSE IF \E i \in 1..Len(e.items) : Item(cx, e.items[i], st) # <<>> THEN <<>>
         ELSE LET m == MaxItemWidth(e.items)
              IN IF st.pos + m <= N(cx) THEN <<Adv(st, m)>> ELSE <<>>
    [] e.k = "loop"  -> IF e.name = "" THEN Mand(cx, e, e.min, st) ELSE NOpt(cx, e, 0, PushScope(st, e.name))
    [] e.k = "cap"   ->
         LET P == Paths(cx, e.body, st)
         IN [i \in 1..Len(P) |-> BindStr(P[i], e.name, Slice(cx.t, st.pos, P[i].pos))]
    [] e.k = "sub"   -> CallPaths(cx, e.name, st)          \* defining occurrence runs in place
    [] e.k = "ref"   ->
         IF cx.D[e.name].kind = "cap"
         THEN IF e.name \notin DOMAIN st.env THEN <<>>
              ELSE LET v == st.env[e.name]
                   IN IF v = <<>> THEN <<st>>                \* empty binding matches the empty text
                      ELSE LitPaths(cx, Lit(v), st)
         ELSE CallPaths(cx, e.name, st)

SeqPaths(cx, es, i, st) ==
  IF i > Len(es) THEN <<st>>
  ELSE LET P == Paths(cx, es[i], st)
       IN Cat([j \in 1..Len(P) |-> SeqPaths(cx, es, i + 1, P[j])])

(* unnamed loop: `min` mandatory copies as a plain sequence (not guarded),  *)
(* then the optional phase                                                  *)
Mand(cx, e, left, st) ==
  IF left = 0 THEN (IF e.max = e.min THEN <<st>> ELSE Opt(cx, e, 0, st))
  ELSE LET P == Paths(cx, e.body, st)
       IN Cat([j \in 1..Len(P) |-> Mand(cx, e, left - 1, P[j])])

(* k optional iterations done so far; an iteration that consumes nothing is *)
(* discarded (the zero-width guard)                                         *)
Opt(cx, e, k, st) ==
  LET canMore == e.max = -1 \/ k < e.max - e.min
      P    == IF canMore THEN Paths(cx, e.body, st) ELSE <<>>
      more == Cat([j \in 1..Len(P) |->
                     IF P[j].pos > st.pos THEN Opt(cx, e, k + 1, P[j]) ELSE <<>>])
  IN IF e.few THEN <<st>> \o more ELSE more \o <<st>>

(* a named loop is not unrolled: k iterations done; an iteration that        *)
(* consumed nothing is discarded on re-entry, also among the mandatory ones; *)
(* leaving the loop hands its per-iteration maps to the enclosing scope      *)
NOpt(cx, e, k, st) ==
  LET within == e.max = -1 \/ k <= e.max
      P    == IF k < e.min \/ within THEN Paths(cx, e.body, st) ELSE <<>>
      more == Cat([j \in 1..Len(P) |-> IF P[j].pos > st.pos THEN NOpt(cx, e, k + 1, NextIter(P[j])) ELSE <<>>])
  IN IF k < e.min THEN more
     ELSE IF within THEN (IF e.few THEN <<PopScope(st)>> \o more ELSE more \o <<PopScope(st)>>)
     ELSE <<>>

(* a subroutine / global pattern: its body, then its predicate with `match` *)
(* = the text this invocation consumed                                      *)
CallPaths(cx, name, st) ==
  LET d == cx.D[name]
      P == SeqPaths(cx, d.es, 1, st)
  IN IF d.pred = <<>> THEN P
     ELSE LET keep == [j \in 1..Len(P) |->
                         LET r == PredicateHolds(d.pred, PredEnv(Slice(cx.t, st.pos, P[j].pos)))
                         IN IF r.ok /\ r.b THEN <<P[j]>> ELSE <<>>]
          IN Cat(keep)

(* ------------------------------------------------------------- FindAll    *)
St0(from) == [pos |-> from, env |-> EmptyEnv, lenv |-> EmptyEnv, sc |-> <<>>]

Attempt(cx, body, from) ==
  LET P == SeqPaths(cx, body, 1, St0(from)) IN
  IF P = <<>> THEN [ok |-> FALSE, pos |-> from, env |-> EmptyEnv, vars |-> EmptyEnv]
  ELSE [ok |-> TRUE, pos |-> P[1].pos, env |-> P[1].env, vars |-> VarsOf(P[1])]

MkMatch(cx, s, e, n, env, vars) ==
  [s |-> s, e |-> e, n |-> n, vars |-> vars, svars |-> env,       \* svars: the top-level string bindings
   ls |-> LineOf(cx.t, s), le |-> LineOf(cx.t, e),
   cs |-> ColOf(cx.t, s),  ce |-> ColOf(cx.t, e)]

RECURSIVE Scan(_, _, _, _, _)
Scan(cx, body, from, n, acc) ==
  IF from >= N(cx) THEN acc
  ELSE LET a == Attempt(cx, body, from)
       IN IF a.ok /\ a.pos > from
          THEN Scan(cx, body, a.pos, n + 1, Append(acc, MkMatch(cx, from, a.pos, n + 1, a.env, a.vars)))
          ELSE Scan(cx, body, from + 1, n, acc)

FindAll(cx, body) == Scan(cx, body, 0, 0, <<>>)

(* amount clauses: windows of the one sequence A                            *)
(* amt = [k:"all"] | [k:"top",n] | [k:"take",n] | [k:"skip",s] |            *)
(*       [k:"skiptake",s,t] | [k:"last",n]                                   *)
Drop(A, s) == IF s >= Len(A) THEN <<>> ELSE SubSeq(A, s + 1, Len(A))
Take(A, n) == IF n >= Len(A) THEN A ELSE SubSeq(A, 1, n)
Window(A, amt) ==
  CASE amt.k = "all"      -> A
    [] amt.k = "top"      -> Take(A, amt.n)
    [] amt.k = "take"     -> Take(A, amt.n)
    [] amt.k = "skip"     -> Drop(A, amt.s)
    [] amt.k = "skiptake" -> Take(Drop(A, amt.s), amt.t)
    [] amt.k = "last"     -> Drop(A, IF Len(A) > amt.n THEN Len(A) - amt.n ELSE 0)

(* --------------------------------------------------- static name tables   *)
(* D maps every name a command can mention to [kind, es, pred].             *)
RECURSIVE SubsOf(_), SubsOfSeq(_), CapsOf(_), CapsOfSeq(_)
SubsOfSeq(es) == UNION {SubsOf(es[i]) : i \in 1..Len(es)}
SubsOf(e) ==
  CASE e.k = "seq"  -> SubsOfSeq(e.es)
    [] e.k = "or"   -> SubsOf(e.l) \cup SubsOf(e.r)
    [] e.k = "loop" -> SubsOf(e.body)
    [] e.k = "cap"  -> SubsOf(e.body)
    [] e.k = "sub"  -> {[name |-> e.name, es |-> e.es]} \cup SubsOfSeq(e.es)
    [] OTHER        -> {}
CapsOfSeq(es) == UNION {CapsOf(es[i]) : i \in 1..Len(es)}
CapsOf(e) ==
  CASE e.k = "seq"  -> CapsOfSeq(e.es)
    [] e.k = "or"   -> CapsOf(e.l) \cup CapsOf(e.r)
    [] e.k = "loop" -> CapsOf(e.body)
    [] e.k = "cap"  -> {e.name} \cup CapsOf(e.body)
    [] e.k = "sub"  -> CapsOfSeq(e.es)
    [] OTHER        -> {}

(* defs: sequence of [name, es, pred] from `set name to pattern`            *)
DefTable(defs, body) ==
  LET subs  == SubsOfSeq(body) \cup UNION {SubsOfSeq(defs[i].es) : i \in 1..Len(defs)}
      caps  == CapsOfSeq(body) \cup UNION {CapsOfSeq(defs[i].es) : i \in 1..Len(defs)}
      gn    == {defs[i].name : i \in 1..Len(defs)}
      sn    == {s.name : s \in subs}
  IN [x \in gn \cup sn \cup caps |->
        IF x \in caps THEN [kind |-> "cap", es |-> <<>>, pred |-> <<>>]
        ELSE IF x \in sn THEN LET s == CHOOSE s \in subs : s.name = x
                              IN [kind |-> "sub", es |-> s.es, pred |-> <<>>]
        ELSE LET i == CHOOSE i \in 1..Len(defs) : defs[i].name = x
             IN [kind |-> "glob", es |-> defs[i].es, pred |-> defs[i].pred]]

Ctx(t, defs, body, q) == [t |-> t, D |-> DefTable(defs, body), q |-> q]

(* ------------------------------------------- which quirk cells can matter *)
RECURSIVE AnchorsOf(_), AnchorsOfSeq(_)
AnchorsOfSeq(es) == UNION {AnchorsOf(es[i]) : i \in 1..Len(es)}
AnchorsOf(e) ==
  CASE e.k = "anc"  -> {e.c}
    [] e.k = "seq"  -> AnchorsOfSeq(e.es)
    [] e.k = "or"   -> AnchorsOf(e.l) \cup AnchorsOf(e.r)
    [] e.k = "loop" -> AnchorsOf(e.body)
    [] e.k = "cap"  -> AnchorsOf(e.body)
    [] e.k = "sub"  -> AnchorsOfSeq(e.es)
    [] OTHER        -> {}
QuirksFor(defs, body) ==
  LET A == AnchorsOfSeq(body) \cup UNION {AnchorsOfSeq(defs[i].es) : i \in 1..Len(defs)}
  IN {q \in AllQuirks :
        /\ ("wordstart" \notin A => q.wsN = TRUE)
        /\ ("wordend"   \notin A => (q.we0 = TRUE /\ q.weN = TRUE))}

(* whole line / whole word started where no line / word starts (an empty    *)
(* line; a text that begins with a non-word byte) are undocumented cells:   *)
(* the answer is not firm on such texts                                     *)
RECURSIVE WholesOf(_), WholesOfSeq(_)
WholesOfSeq(es) == UNION {WholesOf(es[i]) : i \in 1..Len(es)}
WholesOf(e) ==
  CASE e.k = "whole" -> {e.c}
    [] e.k = "seq"  -> WholesOfSeq(e.es)
    [] e.k = "or"   -> WholesOf(e.l) \cup WholesOf(e.r)
    [] e.k = "loop" -> WholesOf(e.body)
    [] e.k = "cap"  -> WholesOf(e.body)
    [] e.k = "sub"  -> WholesOfSeq(e.es)
    [] OTHER        -> {}
WholeFirm(t, W) ==
  /\ ("line" \in W => (t[1] # 10 /\ (\A i \in 1..(Len(t) - 1) : ~(t[i] = 10 /\ t[i + 1] = 10))
                          \* a CR only as the first half of CR LF, after at least one other character of its line
                          /\ (\A j \in 1..Len(t) : t[j] = 13 => (j > 1 /\ j < Len(t) /\ t[j + 1] = 10 /\ t[j - 1] \notin {10, 13}))))
  /\ ("word" \in W => IsWordByte(t[1]))

(* The specification's answer for one command on one text: the match list   *)
(* and whether it is independent of the quirk cells.                        *)
Expect(t, defs, body, amt) ==
  IF t = <<>> THEN [ms |-> <<>>, firm |-> TRUE]
  ELSE LET R  == {Window(FindAll(Ctx(t, defs, body, q), body), amt) : q \in QuirksFor(defs, body)}
           r0 == Window(FindAll(Ctx(t, defs, body, QuirkCode), body), amt)
           W  == WholesOfSeq(body) \cup UNION {WholesOfSeq(defs[i].es) : i \in 1..Len(defs)}
       IN [ms |-> r0, firm |-> Cardinality(R) = 1 /\ WholeFirm(t, W)]
=============================================================================
