---------------------------- MODULE SessionTrace ----------------------------
(* Trace validation for C19: the accesses of the shared group counter       *)
(* recorded by hook H3 from real goroutines (sequence numbers taken inside  *)
(* the hook) must be a behaviour of the LOCKED model of Session.tla: the    *)
(* sections reset .. end of different goroutines never interleave and the   *)
(* counter values are those of a parse running alone.                       *)
EXTENDS Integers, Sequences, Json, TLC

CONSTANT TraceFile
Trace == ndJsonDeserialize(TraceFile)     \* {"g": goroutine, "k": "reset"|"inc"|"end", "v": value}

VARIABLES owner, counter, l
tvars == <<owner, counter, l>>
Ev == Trace[l]

TraceInit == owner = -1 /\ counter = 0 /\ l = 1

Reset == /\ l <= Len(Trace) /\ Ev.k = "reset"
         /\ owner = -1                        \* nobody is inside a parse
         /\ Ev.v = 0
         /\ owner' = Ev.g /\ counter' = 0 /\ l' = l + 1
Inc ==   /\ l <= Len(Trace) /\ Ev.k = "inc"
         /\ owner = Ev.g
         /\ Ev.v = counter + 1
         /\ counter' = counter + 1 /\ l' = l + 1 /\ UNCHANGED owner
End ==   /\ l <= Len(Trace) /\ Ev.k = "end"
         /\ owner = Ev.g
         /\ owner' = -1 /\ l' = l + 1 /\ UNCHANGED counter

TraceNext == Reset \/ Inc \/ End
TraceSpec == TraceInit /\ [][TraceNext]_tvars

HighWater == TLCSet(1, IF TLCGet(1) < l THEN l ELSE TLCGet(1))
ASSUME TLCSet(1, 0)
TraceAccepted ==
  \/ TLCGet(1) = Len(Trace) + 1
  \/ Print(<<"TRACE-REJECTED at line", TLCGet(1), Trace[IF TLCGet(1) <= Len(Trace) THEN TLCGet(1) ELSE Len(Trace)]>>, FALSE)
=============================================================================
