------------------------------ MODULE ReaderInd ------------------------------
(* Unbounded file size: the re-centring arithmetic of the buffered reader   *)
(* with the real constants (B = H = 4096), as an inductive invariant for    *)
(* Apalache:  Init => IndInv  and  IndInv /\ Next => IndInv'.               *)
EXTENDS Integers

CONSTANT
  \* @type: Int;
  N

VARIABLES
  \* @type: Int;
  min,
  \* @type: Int;
  max,
  \* @type: Int;
  cur

B == 4096
H == 4096
NMAX == 100000

Min2(a, b) == IF a < b THEN a ELSE b

NewStart(o) ==
  LET s0 == IF o - (B \div 2) < 0 THEN 0 ELSE o - (B \div 2)
      fb == IF N - H < 0 THEN N ELSE N - H
  IN IF s0 >= fb THEN (IF N - H < 0 THEN 0 ELSE N - H) ELSE s0

ConstInit == N \in 0..NMAX

Init == min = 0 /\ max = Min2(B, N) /\ cur = 0

(* Seek(o): the only step that moves the window (Read re-centres by seeking *)
(* to the cursor)                                                           *)
Seek ==
  \E o \in 0..NMAX :
    /\ o <= N
    /\ IF o < min \/ o >= max
       THEN min' = NewStart(o) /\ max' = NewStart(o) + Min2(B, N - NewStart(o))
       ELSE UNCHANGED <<min, max>>
    /\ cur' = o
(* Read advances the cursor inside the window                                *)
Advance ==
  \E k \in 1..B :
    /\ cur + k <= max
    /\ cur >= min
    /\ cur' = cur + k
    /\ UNCHANGED <<min, max>>

Next == Seek \/ Advance

(* the window is inside the file, at most B wide, and full unless the file  *)
(* is shorter than the buffer; after a seek below the end it holds the      *)
(* cursor, so Read makes progress                                           *)
IndInv ==
  /\ N \in 0..NMAX
  /\ 0 <= min /\ min <= max /\ max <= N /\ max - min <= B
  /\ max - min = Min2(B, N - min)
  /\ 0 <= cur /\ cur <= N
  /\ (cur < N => (min <= cur /\ cur <= max))
IndInit == min \in 0..NMAX /\ max \in 0..NMAX /\ cur \in 0..NMAX /\ IndInv
=============================================================================
