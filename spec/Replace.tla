------------------------------ MODULE Replace ------------------------------
(* Replace commands: the replacer program of a `with` list, the splice, and *)
(* the file-system machine of the three replace modes.                      *)
(* Anchors: libvore/engine/search.go searchReplace/executeReplace*,          *)
(*          libvore/engine/searchengine.go InitReplacerState,                *)
(*          libvore/engine/engine.go RunFiles.                               *)
EXTENDS Semantics

(* with-items: [k:"str", s] | [k:"name", name]                              *)
(* trans: name -> statements, the transforms defined BEFORE the command     *)

Builtins == {"totalMatches", "matchNumber", "startOffset", "endOffset",
             "lineNumber", "columnNumber", "value", "filename"}

(* the variables a replacer sees for match m (all strings)                  *)
ReplVars(t, m, total, fname) ==
  LET b == [x \in Builtins |->
              CASE x = "totalMatches" -> Itoa(total)
                [] x = "matchNumber"  -> Itoa(m.n)
                [] x = "startOffset"  -> Itoa(m.s)
                [] x = "endOffset"    -> Itoa(m.e)
                [] x = "lineNumber"   -> Itoa(m.ls)
                [] x = "columnNumber" -> Itoa(m.cs)
                [] x = "value"        -> Slice(t, m.s, m.e)
                [] x = "filename"     -> fname]
  IN [x \in DOMAIN m.svars \cup Builtins |-> IF x \in Builtins THEN b[x] ELSE m.svars[x]]

(* the environment of a transform run for match m                           *)
TransEnv(t, m, total, fname) ==
  LET rv == ReplVars(t, m, total, fname)
      val == Slice(t, m.s, m.e)
  IN [x \in DOMAIN rv \cup {"match", "matchLength", "matchNumber"} |->
        CASE x = "match"       -> VS(val)
          [] x = "matchLength" -> VN(Len(val))
          [] x = "matchNumber" -> VN(m.n)
          [] OTHER             -> VS(rv[x])]

(* one item's contribution: [ok, s]                                         *)
ItemText(t, m, total, fname, trans, it) ==
  IF it.k = "str" THEN [ok |-> TRUE, s |-> it.s, why |-> "str"]
  ELSE IF it.name \in DOMAIN trans
       THEN TransformText(trans[it.name], TransEnv(t, m, total, fname))
  ELSE LET rv == ReplVars(t, m, total, fname)
       IN [ok |-> TRUE, s |-> IF it.name \in DOMAIN rv THEN rv[it.name] ELSE <<>>, why |-> "var"]

(* Replacement(m) = concatenation of the items; ok = every transform has a  *)
(* defined value                                                            *)
Replacement(t, m, total, fname, trans, items) ==
  LET parts == [i \in 1..Len(items) |-> ItemText(t, m, total, fname, trans, items[i])]
  IN [ok |-> \A i \in 1..Len(items) : parts[i].ok,
      s  |-> Cat([i \in 1..Len(items) |-> parts[i].s]),
      noreturn |-> \E i \in 1..Len(items) : parts[i].why = "noreturn",
      undefwhy |-> IF \A i \in 1..Len(items) : parts[i].ok THEN ""
                   ELSE parts[CHOOSE i \in 1..Len(items) : ~parts[i].ok].why]

(* the match carries a replacement once some item wrote to it (a string,    *)
(* even the empty one, a bound name, or a transform); a `with` list whose   *)
(* items all name nothing leaves it without one                             *)
HasReplacement(t, m, total, fname, trans, items) ==
  \E i \in 1..Len(items) :
    \/ items[i].k = "str"
    \/ items[i].name \in DOMAIN trans
    \/ items[i].name \in DOMAIN ReplVars(t, m, total, fname)

(* the text a replace command writes: every matched span substituted, every *)
(* other byte preserved in order                                            *)
RECURSIVE SpliceFrom(_, _, _, _)
SpliceFrom(t, ms, i, last) ==       \* ms[j].repl are the replacements; last = reader offset
  IF i > Len(ms) THEN Slice(t, last, Len(t))
  ELSE Slice(t, last, ms[i].s) \o ms[i].repl \o SpliceFrom(t, ms, i + 1, ms[i].e)
Splice(t, ms) == SpliceFrom(t, ms, 1, 0)

(* ------------------------------------------------ file-system transitions *)
(* fs : file name -> bytes (absent names are not in DOMAIN fs)              *)
Vored(f) == f \o ".vored"
FsSet(fs, f, bytes) == [g \in DOMAIN fs \cup {f} |-> IF g = f THEN bytes ELSE fs[g]]

(* effect of running one command on one file                                *)
RunFindFS(fs, f) == fs
RunReplaceFS(fs, f, mode, spliced) ==
  CASE mode = "NOTHING"   -> fs
    [] mode = "NEW"       -> FsSet(fs, Vored(f), spliced)
    [] mode = "OVERWRITE" -> FsSet(fs, f, spliced)
=============================================================================
