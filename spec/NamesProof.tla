----------------------------- MODULE NamesProof -----------------------------
(* The design behind the repair 95da28b, for EVERY tree, argument list and   *)
(* sequence of renames (NamesFS.tla checks the concrete machine on a scope): *)
(* when the arguments follow the renames, every argument that is not a       *)
(* directory names an existing file at all times, so the os.Stat at the      *)
(* start of each command cannot fail.  Abstraction of NamesFS: the file      *)
(* system is the set of existing paths, a successful rename removes the      *)
(* source and adds the target (which is not a directory).                    *)
EXTENDS Naturals, TLAPS

CONSTANTS Path, Dirs, NArgs
ASSUME NArgsNat == NArgs \in Nat

VARIABLES files, args
vars == <<files, args>>

TypeOK == files \subseteq Path /\ args \in [1..NArgs -> Path]
ArgsExist == \A j \in 1..NArgs : args[j] \in Dirs \/ args[j] \in files

Init == TypeOK /\ ArgsExist

Rename(f, t) ==
  /\ f \in files /\ t \in Path /\ t \notin Dirs
  /\ files' = (files \ {f}) \cup {t}
  /\ args' = [j \in 1..NArgs |-> IF args[j] = f THEN t ELSE args[j]]

(* a failed rename, a search without rename, the next command               *)
Other == UNCHANGED vars

Next == (\E f \in Path, t \in Path : Rename(f, t)) \/ Other
Spec == Init /\ [][Next]_vars

Inv == TypeOK /\ ArgsExist

THEOREM Safe == Spec => []Inv
<1>1. Init => Inv
  BY DEF Init, Inv
<1>2. Inv /\ [Next]_vars => Inv'
  <2> SUFFICES ASSUME Inv, [Next]_vars PROVE Inv'
    OBVIOUS
  <2>1. CASE \E f \in Path, t \in Path : Rename(f, t)
    <3>1. PICK f \in Path, t \in Path : Rename(f, t)
      BY <2>1
    <3>2. TypeOK'
      BY <3>1 DEF Rename, Inv, TypeOK
    <3>3. ArgsExist'
      BY <3>1 DEF Rename, Inv, TypeOK, ArgsExist
    <3> QED BY <3>2, <3>3 DEF Inv
  <2>2. CASE UNCHANGED vars
    BY <2>2 DEF Inv, TypeOK, ArgsExist, vars
  <2> QED BY <2>1, <2>2 DEF Next, Other
<1> QED BY <1>1, <1>2, PTL DEF Spec
=============================================================================
