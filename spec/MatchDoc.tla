------------------------------ MODULE MatchDoc ------------------------------
(* The JSON document of a result list: one object per match.                *)
(* Anchors: libvore/engine/matches.go (Match.MarshalJSON), ds/range.go.      *)
(* Strings are byte sequences here; the harness compares them with the      *)
(* decoded JSON strings (valid UTF-8 must round-trip exactly).               *)
EXTENDS EvalCases

DocOf(t, fname, m, isReplace) ==
  LET base == [filename |-> fname, matchNumber |-> m.n,
               offset |-> [start |-> m.s, end |-> m.e],
               line   |-> [start |-> m.ls, end |-> m.le],
               column |-> [start |-> m.cs, end |-> m.ce],
               value  |-> Slice(t, m.s, m.e),
               variables |-> m.vars]
  IN IF isReplace /\ m.hasr
     THEN [x \in DOMAIN base \cup {"replacement"} |-> IF x = "replacement" THEN m.repl ELSE base[x]]
     ELSE base

(* the document of a whole run: matches of all commands, in order            *)
RunDoc(c, t) ==
  Cat([j \in 1..Len(c.cmds) |->
         LET r == CmdResult(c, c.cmds[j], t)
         IN [k \in 1..Len(r.ms) |-> DocOf(t, FName, r.ms[k], c.cmds[j].kind = "replace")]])

EmitDoc ==
  LET c == Cases[i]  T == TextsOf(c) IN
  PrintT(ToJson([id |-> c.id, r |-> [j \in 1..Len(T) |-> [t |-> T[j], doc |-> RunDoc(c, T[j])]]]))
=============================================================================
