------------------------------ MODULE LitScope ------------------------------
(* C16: every spelling of every byte 1..127 in both quote styles, and the   *)
(* incomplete \x escapes; each as `find all <literal>` with the literal's   *)
(* denotation computed by the lexer automaton.                              *)
EXTENDS Scope, Lexer, Json

CONSTANTS OutFile

FindAllBytes == <<102, 105, 110, 100, 32, 97, 108, 108, 32>>    \* "find all "

Near(b) == {x \in {b - 1, b + 1, b + 32, b - 32} : x >= 1 /\ x <= 127}
LitCase(id, q, body) ==
  LET d == Denote(q, body).s
  IN [id |-> id, cmds |-> <<FindAllCmd(<<Lit(d)>>)>>,
      srcbytes |-> FindAllBytes \o <<q>> \o body \o <<q>>,
      texts |-> IF Len(d) = 1
                THEN SetToSeq({d} \cup {<<x>> : x \in Near(d[1])} \cup {<<d[1], d[1]>>})
                ELSE SetToSeq({d} \cup UNION {{[d EXCEPT ![j] = x] : x \in Near(d[j])} : j \in 1..Len(d)})]

Bodies ==
  UNION {{[q |-> q, body |-> spl] : spl \in UNION {SpellingsOf(b, q) : b \in 1..127}} : q \in {Q1, Q2}}
IncompleteHex ==
  {[q |-> q, body |-> <<BSL, 120>> \o t] : q \in {Q1, Q2},
     t \in {<<>>, <<49>>, <<103>>, <<49, 103>>, <<103, 49>>, <<103, 103>>, <<32, 49>>, <<120>>, <<BSL, 110>>}}
(* quotes of the other style need no escape; two escapes in a row           *)
MixedLits ==
  {[q |-> Q1, body |-> <<Q2, 97>>], [q |-> Q2, body |-> <<Q1, 97>>], [q |-> Q1, body |-> <<BSL, Q1, BSL, BSL>>],
   [q |-> Q2, body |-> <<BSL, Q2, BSL, 110, BSL, 120, 52, 49>>], [q |-> Q1, body |-> <<BSL, 120, 54, 49, BSL, 120, 54, 50>>]}

All == SetToSeq(Bodies \cup IncompleteHex \cup MixedLits)
ASSUME ndJsonSerialize(OutFile, [i \in 1..Len(All) |-> LitCase(i, All[i].q, All[i].body)])
ASSUME PrintT(<<"cases", Len(All)>>)
=============================================================================
