--------------------------------- MODULE FS ---------------------------------
(* The file-system machine of RunFiles: state fs (file name -> bytes); one  *)
(* action per (command, file) pair in the order the engine processes them   *)
(* (commands outer, files inner); replace modes NOTHING / NEW / OVERWRITE.  *)
(* Anchors: libvore/engine/engine.go RunFiles, search.go searchReplace,     *)
(* files/writer.go.                                                         *)
(* Case: [id, defs, trans, cmds, files : <<[name, bytes]>> or <<[d, name,    *)
(* bytes]>> for files inside a directory, dirs : <<[d, names]>> (listing     *)
(* order), order : <<argument>> (a file name or a directory name), mode]     *)
EXTENDS Replace, Json, SequencesExt

CONSTANT CaseFile
Cases == ndJsonDeserialize(CaseFile)

VARIABLES ci,      \* case index
          cs,      \* the case itself (read once: the case file is not re-read at every reference)
          k,       \* index of the command being run (1-based; Len+1 = finished)
          a,       \* index of the next argument of RunFiles to expand for this command
          pend,    \* files of the current argument still to be searched (a directory argument expands to its entries NOW)
          fs,      \* the file system: file id -> bytes; id = [d : directory ("" = the working directory), n : name]
          dl,      \* directory listings: directory -> names in os.ReadDir order
          acc      \* matches returned so far (RunFiles concatenates them)
fvars == <<ci, cs, k, a, pend, fs, dl, acc>>

C == cs
HasFld(r, f) == f \in DOMAIN r
Id(d, n) == [d |-> d, n |-> n]
FileIdOf(f) == Id(IF HasFld(f, "d") THEN f.d ELSE "", f.name)
VoredId(id) == [id EXCEPT !.n = @ \o ".vored"]

FS0(c) == [id \in {FileIdOf(c.files[j]) : j \in 1..Len(c.files)} |->
             (LET j == CHOOSE j \in 1..Len(c.files) : FileIdOf(c.files[j]) = id IN c.files[j].bytes)]
DirsOf(c) == IF HasFld(c, "dirs") THEN c.dirs ELSE <<>>
DL0(c) == [d \in {DirsOf(c)[j].d : j \in 1..Len(DirsOf(c))} |->
             (LET j == CHOOSE j \in 1..Len(DirsOf(c)) : DirsOf(c)[j].d = d IN DirsOf(c)[j].names)]

(* an argument is a file of the working directory (a string) or a directory  *)
IsDirArg(x) == x \in {DirsOf(C)[j].d : j \in 1..Len(DirsOf(C))}
ExpandArgNow(x) == IF IsDirArg(x) THEN [j \in 1..Len(dl[x]) |-> Id(x, dl[x][j])] ELSE <<Id("", x)>>

TransOf(c) ==
  LET tr == IF HasFld(c, "trans") THEN c.trans ELSE <<>>
  IN [x \in {tr[j].name : j \in 1..Len(tr)} |->
        (LET j == CHOOSE j \in 1..Len(tr) : tr[j].name = x IN tr[j].stmts)]

(* A command whose body is one plain literal finds the leftmost,            *)
(* non-overlapping occurrences: the scan written out directly.  It is what  *)
(* the semantics gives (LitScanAgrees below, checked on every small case)   *)
(* and it can be evaluated on files far beyond the reader's window.         *)
IsPlainLit(cmd) ==
  /\ Len(cmd.body) = 1 /\ cmd.body[1].k = "lit" /\ ~cmd.body[1].neg /\ ~cmd.body[1].ci /\ Len(cmd.body[1].s) > 0
  /\ cmd.amt.k = "all"
(* (occurrences as a set, then the leftmost one at or after the previous     *)
(* match's end: no recursion over the text, TLC evaluates it in linear time) *)
Occ(t, s) == {p \in 0..(Len(t) - Len(s)) : SubSeq(t, p + 1, p + Len(s)) = s}
RECURSIVE Pick(_, _, _, _)
Pick(O, len, from, n) ==
  LET R == {p \in O : p >= from} IN
  IF R = {} THEN <<>>
  ELSE LET p == CHOOSE p \in R : \A q \in R : p <= q
       IN <<[s |-> p, e |-> p + len, n |-> n]>> \o Pick(O, len, p + len, n + 1)
LitScan(t, s, pos, n) == Pick(Occ(t, s), Len(s), pos, n)
StrItemsOnly(cmd) == cmd.kind = "find" \/ \A j \in 1..Len(cmd.with) : cmd.with[j].k = "str"
Fast(c, cmd) == HasFld(c, "big") /\ IsPlainLit(cmd) /\ StrItemsOnly(cmd)
FastMatches(cmd, t) ==
  LET E == LitScan(t, cmd.body[1].s, 0, 1)
      r == IF cmd.kind = "find" THEN <<>> ELSE Cat([j \in 1..Len(cmd.with) |-> cmd.with[j].s])
  IN [j \in 1..Len(E) |-> [s |-> E[j].s, e |-> E[j].e, n |-> E[j].n, repl |-> r, hasr |-> cmd.kind # "find"]]

(* matches (with replacements) of one command on the current content of f   *)
MatchesOn(c, cmd, t) ==
  IF Fast(c, cmd) THEN FastMatches(cmd, t) ELSE
  LET defs == IF HasFld(c, "defs") THEN c.defs ELSE <<>>
      E == Expect(t, defs, cmd.body, cmd.amt).ms
  IN IF cmd.kind = "find" THEN [j \in 1..Len(E) |-> [s |-> E[j].s, e |-> E[j].e, n |-> E[j].n, repl |-> <<>>, hasr |-> FALSE]]
     ELSE [j \in 1..Len(E) |->
             [s |-> E[j].s, e |-> E[j].e, n |-> E[j].n, hasr |-> TRUE,
              repl |-> Replacement(t, E[j], Len(E), <<>>, TransOf(c), cmd.with).s]]

Init ==
  /\ ci \in 1..Len(Cases)
  /\ cs = Cases[ci]
  /\ k = 1 /\ a = 1 /\ pend = <<>>
  /\ fs = FS0(cs) /\ dl = DL0(cs)
  /\ acc = <<>>

Running == k <= Len(C.cmds)

(* the next argument of this command is expanded when its turn comes        *)
ExpandArg ==
  /\ Running /\ pend = <<>> /\ a <= Len(C.order)
  /\ pend' = ExpandArgNow(C.order[a])
  /\ a' = a + 1
  /\ UNCHANGED <<ci, cs, k, fs, dl, acc>>

(* all arguments done: next command                                          *)
NextCommand ==
  /\ Running /\ pend = <<>> /\ a > Len(C.order)
  /\ k' = k + 1 /\ a' = 1
  /\ UNCHANGED <<ci, cs, pend, fs, dl, acc>>

(* a find command never modifies any file                                   *)
RunFind ==
  /\ Running /\ pend # <<>>
  /\ C.cmds[k].kind = "find"
  /\ acc' = acc \o MatchesOn(C, C.cmds[k], fs[pend[1]])
  /\ pend' = Tail(pend)
  /\ UNCHANGED <<ci, cs, k, a, fs, dl>>

(* a name created next to n in a listed directory sorts right after n       *)
RECURSIVE InsertAfter(_, _, _)
InsertAfter(names, n, new) ==
  IF names = <<>> THEN <<new>>
  ELSE IF names[1] = new THEN names
  ELSE IF names[1] = n THEN (IF Len(names) > 1 /\ names[2] = new THEN names ELSE <<n, new>> \o Tail(names))
  ELSE <<names[1]>> \o InsertAfter(Tail(names), n, new)

RunReplace(mode) ==
  /\ Running /\ pend # <<>>
  /\ C.cmds[k].kind = "replace"
  /\ C.mode = mode
  /\ LET f  == pend[1]
         ms == MatchesOn(C, C.cmds[k], fs[f])
         sp == Splice(fs[f], ms)
     IN /\ fs' = CASE mode = "NOTHING" -> fs
                    [] mode = "NEW" -> [g \in DOMAIN fs \cup {VoredId(f)} |-> IF g = VoredId(f) THEN sp ELSE fs[g]]
                    [] mode = "OVERWRITE" -> [fs EXCEPT ![f] = sp]
        /\ dl' = IF mode = "NEW" /\ f.d \in DOMAIN dl THEN [dl EXCEPT ![f.d] = InsertAfter(@, f.n, f.n \o ".vored")] ELSE dl
        /\ acc' = acc \o ms
  /\ pend' = Tail(pend)
  /\ UNCHANGED <<ci, cs, k, a>>

RunReplaceNothing   == RunReplace("NOTHING")
RunReplaceNew       == RunReplace("NEW")
RunReplaceOverwrite == RunReplace("OVERWRITE")

Next == ExpandArg \/ NextCommand \/ RunFind \/ RunReplaceNothing \/ RunReplaceNew \/ RunReplaceOverwrite
Spec == Init /\ [][Next]_fvars

(* ------------------------------------------------------------- invariants *)
OnlyFinds == \A j \in 1..Len(C.cmds) : C.cmds[j].kind = "find"
(* ids a run may create: x.vored (and, for a listed directory searched again *)
(* by a later command, x.vored.vored ...) of files it searched                *)
RECURSIVE VoredClosure(_, _)
VoredClosure(S, n) == IF n = 0 THEN S ELSE VoredClosure(S \cup {VoredId(x) : x \in S}, n - 1)
Searchable ==
  {Id("", C.order[j]) : j \in {j \in 1..Len(C.order) : ~IsDirArg(C.order[j])}}
    \cup {id \in DOMAIN FS0(C) : IsDirArg(id.d) /\ \E j \in 1..Len(C.order) : C.order[j] = id.d}

(* each mode touches only the file it may                                   *)
OnlyAllowedFilesChange ==
  LET f0 == FS0(C) IN
  /\ (C.mode = "NOTHING" \/ OnlyFinds) => fs = f0
  /\ C.mode = "NEW" =>
       /\ \A id \in DOMAIN f0 : (id \notin VoredClosure({VoredId(x) : x \in Searchable}, Len(C.cmds))) => (id \in DOMAIN fs /\ fs[id] = f0[id])
       /\ DOMAIN fs \subseteq DOMAIN f0 \cup VoredClosure({VoredId(x) : x \in Searchable}, Len(C.cmds))
  /\ C.mode = "OVERWRITE" =>
       /\ DOMAIN fs = DOMAIN f0
       /\ \A id \in DOMAIN f0 : id \notin Searchable => fs[id] = f0[id]

(* the splice: length arithmetic and preservation of unmatched bytes        *)
RECURSIVE SumDelta(_, _)
SumDelta(ms, j) == IF j > Len(ms) THEN 0 ELSE (Len(ms[j].repl) - (ms[j].e - ms[j].s)) + SumDelta(ms, j + 1)
RECURSIVE Unmatched(_, _, _, _)
Unmatched(t, ms, j, last) ==
  IF j > Len(ms) THEN Slice(t, last, Len(t)) ELSE Slice(t, last, ms[j].s) \o Unmatched(t, ms, j + 1, ms[j].e)
RECURSIVE StripRepl(_, _, _, _)
StripRepl(out, ms, j, shift) ==      \* remove the replacements from the spliced text
  IF j > Len(ms) THEN out
  ELSE LET at == ms[j].s + shift     \* position of replacement j in out
       IN StripRepl(Slice(out, 0, at) \o Slice(out, at + Len(ms[j].repl), Len(out)), ms, j + 1, shift - (ms[j].e - ms[j].s))
SpliceLemma ==
  (Running /\ pend # <<>> /\ C.cmds[k].kind = "replace") =>
    LET t  == fs[pend[1]]
        ms == MatchesOn(C, C.cmds[k], t)
        o  == Splice(t, ms)
    IN /\ Len(o) = Len(t) + SumDelta(ms, 1)
       /\ StripRepl(o, ms, 1, 0) = Unmatched(t, ms, 1, 0)

(* the direct scan is the semantics of a plain literal                      *)
LitScanAgrees ==
  (Running /\ pend # <<>> /\ IsPlainLit(C.cmds[k]) /\ ~HasFld(C, "big")) =>
    LET t == fs[pend[1]]
        E == Expect(t, <<>>, C.cmds[k].body, C.cmds[k].amt).ms
        L == LitScan(t, C.cmds[k].body[1].s, 0, 1)
    IN Len(E) = Len(L) /\ \A j \in 1..Len(E) : E[j].s = L[j].s /\ E[j].e = L[j].e /\ E[j].n = L[j].n

(* emitted once per case, in its final state                                *)
Emit ==
  ~Running =>
    PrintT(ToJson([id |-> C.id,
                   fs |-> [j \in 1..Cardinality(DOMAIN fs) |->
                             LET x == SetToSeq(DOMAIN fs)[j] IN [d |-> x.d, name |-> x.n, bytes |-> fs[x]]],
                   ms |-> acc]))
=============================================================================
