--------------------------------- MODULE FS ---------------------------------
(* The file-system machine of RunFiles: state fs (file name -> bytes); one  *)
(* action per (command, file) pair in the order the engine processes them   *)
(* (commands outer, files inner); replace modes NOTHING / NEW / OVERWRITE.  *)
(* Anchors: libvore/engine/engine.go RunFiles, search.go searchReplace,     *)
(* files/writer.go.                                                         *)
(* Case: [id, defs, trans, cmds, files : <<[name, bytes]>>,                 *)
(*        order : <<name>> (the files searched), mode]                      *)
EXTENDS Replace, Json, SequencesExt

CONSTANT CaseFile
Cases == ndJsonDeserialize(CaseFile)

VARIABLES ci,      \* case index
          k,       \* number of (command, file) steps done
          fs,      \* the file system
          acc      \* matches returned so far (RunFiles concatenates them)
fvars == <<ci, k, fs, acc>>

C == Cases[ci]
HasFld(r, f) == f \in DOMAIN r
NSteps(c) == Len(c.cmds) * Len(c.order)
CmdAt(c, j)  == c.cmds[((j - 1) \div Len(c.order)) + 1]
FileAt(c, j) == c.order[((j - 1) % Len(c.order)) + 1]

FS0(c) == [n \in {c.files[j].name : j \in 1..Len(c.files)} |->
             (LET j == CHOOSE j \in 1..Len(c.files) : c.files[j].name = n IN c.files[j].bytes)]

TransOf(c) ==
  LET tr == IF HasFld(c, "trans") THEN c.trans ELSE <<>>
  IN [x \in {tr[j].name : j \in 1..Len(tr)} |->
        (LET j == CHOOSE j \in 1..Len(tr) : tr[j].name = x IN tr[j].stmts)]

(* matches (with replacements) of one command on the current content of f   *)
MatchesOn(c, cmd, t) ==
  LET defs == IF HasFld(c, "defs") THEN c.defs ELSE <<>>
      E == Expect(t, defs, cmd.body, cmd.amt).ms
  IN IF cmd.kind = "find" THEN [j \in 1..Len(E) |-> [s |-> E[j].s, e |-> E[j].e, n |-> E[j].n, repl |-> <<>>, hasr |-> FALSE]]
     ELSE [j \in 1..Len(E) |->
             [s |-> E[j].s, e |-> E[j].e, n |-> E[j].n, hasr |-> TRUE,
              repl |-> Replacement(t, E[j], Len(E), <<>>, TransOf(c), cmd.with).s]]

Init ==
  /\ ci \in 1..Len(Cases)
  /\ k = 0
  /\ fs = FS0(Cases[ci])
  /\ acc = <<>>

(* a find command never modifies any file                                   *)
RunFind ==
  /\ k < NSteps(C)
  /\ CmdAt(C, k + 1).kind = "find"
  /\ LET f == FileAt(C, k + 1) IN
       /\ fs' = RunFindFS(fs, f)
       /\ acc' = acc \o MatchesOn(C, CmdAt(C, k + 1), fs[f])
  /\ k' = k + 1
  /\ UNCHANGED ci

RunReplace(mode) ==
  /\ k < NSteps(C)
  /\ CmdAt(C, k + 1).kind = "replace"
  /\ C.mode = mode
  /\ LET f  == FileAt(C, k + 1)
         ms == MatchesOn(C, CmdAt(C, k + 1), fs[f])
     IN /\ fs' = RunReplaceFS(fs, f, mode, Splice(fs[f], ms))
        /\ acc' = acc \o ms
  /\ k' = k + 1
  /\ UNCHANGED ci

RunReplaceNothing   == RunReplace("NOTHING")
RunReplaceNew       == RunReplace("NEW")
RunReplaceOverwrite == RunReplace("OVERWRITE")

Next == RunFind \/ RunReplaceNothing \/ RunReplaceNew \/ RunReplaceOverwrite
Spec == Init /\ [][Next]_fvars

(* ------------------------------------------------------------- invariants *)
Searched == {C.order[j] : j \in 1..Len(C.order)}
OnlyFinds == \A j \in 1..Len(C.cmds) : C.cmds[j].kind = "find"

(* each mode touches only the file it may                                   *)
OnlyAllowedFilesChange ==
  LET f0 == FS0(C) IN
  /\ (C.mode = "NOTHING" \/ OnlyFinds) => fs = f0
  /\ C.mode = "NEW" =>
       /\ \A n \in DOMAIN f0 : (n \notin {Vored(f) : f \in Searched}) => (n \in DOMAIN fs /\ fs[n] = f0[n])
       /\ DOMAIN fs \subseteq DOMAIN f0 \cup {Vored(f) : f \in Searched}
  /\ C.mode = "OVERWRITE" =>
       /\ DOMAIN fs = DOMAIN f0
       /\ \A n \in DOMAIN f0 : n \notin Searched => fs[n] = f0[n]

(* the splice: length arithmetic and preservation of unmatched bytes        *)
RECURSIVE SumDelta(_, _)
SumDelta(ms, j) == IF j > Len(ms) THEN 0 ELSE (Len(ms[j].repl) - (ms[j].e - ms[j].s)) + SumDelta(ms, j + 1)
RECURSIVE Unmatched(_, _, _, _)
Unmatched(t, ms, j, last) ==
  IF j > Len(ms) THEN Slice(t, last, Len(t)) ELSE Slice(t, last, ms[j].s) \o Unmatched(t, ms, j + 1, ms[j].e)
RECURSIVE StripRepl(_, _, _, _)
StripRepl(out, ms, j, shift) ==      \* remove the replacements from the spliced text
  IF j > Len(ms) THEN out
  ELSE LET at == ms[j].s + shift     \* position of replacement j in out
       IN StripRepl(Slice(out, 0, at) \o Slice(out, at + Len(ms[j].repl), Len(out)), ms, j + 1, shift - (ms[j].e - ms[j].s))
SpliceLemma ==
  k < NSteps(C) /\ CmdAt(C, k + 1).kind = "replace" =>
    LET f  == FileAt(C, k + 1)
        t  == fs[f]
        ms == MatchesOn(C, CmdAt(C, k + 1), t)
        o  == Splice(t, ms)
    IN /\ Len(o) = Len(t) + SumDelta(ms, 1)
       /\ StripRepl(o, ms, 1, 0) = Unmatched(t, ms, 1, 0)

(* emitted once per case, in its final state                                *)
Emit ==
  k = NSteps(C) =>
    PrintT(ToJson([id |-> C.id,
                   fs |-> [j \in 1..Cardinality(DOMAIN fs) |->
                             LET n == SetToSeq(DOMAIN fs)[j] IN [name |-> n, bytes |-> fs[n]]],
                   ms |-> acc]))
=============================================================================
