--------------------------------- MODULE VM ---------------------------------
(* The search engine as a state machine: a register machine (pc, pos) with  *)
(* four stacks (backtrack, loop, call, open-variable) and an environment,   *)
(* inside the scan loop of findMatches.  One action per instruction kind,   *)
(* so that one recorded engine step (hook H1) is exactly one step here.     *)
(* Anchors: libvore/engine/search.go, libvore/engine/searchengine.go.       *)
(*                                                                          *)
(* The machine registers are one record `m` so that the code's composite    *)
(* micro-operations (JUMP; CHECKPOINT; JUMP -- BACKTRACK; BACKTRACK) can be *)
(* written as function composition; the scan counters are separate          *)
(* variables.  The program and the text are NOT part of the state: the      *)
(* state holds indices (ci, ti) into the constant case table.               *)
EXTENDS Codegen, Json, SequencesExt

CONSTANTS CaseFile,     \* ndjson: programs (AST) or real bytecode, with texts
          MaxSteps      \* safety form of termination: steps <= MaxSteps

Cases == ndJsonDeserialize(CaseFile)
HasF(r, f) == f \in DOMAIN r

TextsOfCase(c) ==
  IF HasF(c, "texts") THEN c.texts
  ELSE SetToSeq(StringsUpTo({c.sigma[j] : j \in 1..Len(c.sigma)}, c.lo, c.hi))

(* per case: the instruction list (from Codegen.tla, or the implementation's *)
(* own bytecode when the case carries it), the amount fields, the texts      *)
CaseTab ==
  [i \in 1..Len(Cases) |->
     LET c == Cases[i]
         defs == IF HasF(c, "defs") THEN c.defs ELSE <<>>
         k == IF HasF(c, "cmdk") THEN c.cmdk ELSE 1
     IN [code  |-> IF HasF(c, "code") THEN c.code ELSE CompileCmd(defs, c.cmds, k).code,
         amt   |-> IF HasF(c, "amtf") THEN c.amtf ELSE AmtFields(c.cmds[k].amt),
         texts |-> TextsOfCase(c)]]

VARIABLES ci, ti,       \* which case, which text
          m,            \* machine registers (record, below)
          from, fline, fcol,   \* start of the current attempt
          matchNo, out, \* scan counters and the match queue
          phase,        \* "attempt" | "between" | "done"
          steps

vars == <<ci, ti, m, from, fline, fcol, matchNo, out, phase, steps>>

Code == CaseTab[ci].code
Text == CaseTab[ci].texts[ti]
NT   == Len(Text)
Amt  == CaseTab[ci].amt
CodeLen == Len(Code)
Instr(pc) == Code[pc + 1]

(* ------------------------------------------------------ machine registers *)
(* m = [st, pc, pos, line, col, bt, loops, calls, open, env]                 *)
(* st \in {"run","ok","fail","stuck"}                                        *)
Fresh(f, l, c) ==
  [st |-> "run", pc |-> 0, pos |-> f, line |-> l, col |-> c,
   bt |-> <<>>, loops |-> <<>>, calls |-> <<>>, open |-> <<>>, env |-> EmptyEnv, lenv |-> EmptyEnv]

FrameOf(r) == [pc |-> r.pc, pos |-> r.pos, line |-> r.line, col |-> r.col,
               loops |-> r.loops, calls |-> r.calls, open |-> r.open,
               env |-> r.env, lenv |-> r.lenv]

NextPc(r)    == [r EXCEPT !.pc = @ + 1]
JumpTo(r, p) == [r EXCEPT !.pc = p]
Checkpoint(r) == [r EXCEPT !.bt = Append(@, FrameOf(r))]

(* BACKTRACK: pop a frame and restore ALL of pc,pos,line,col,loops,calls,    *)
(* open,env; an empty stack fails the attempt.  With the SharedEnv switch    *)
(* the environment is one global map that survives backtracking.            *)
Backtrack(r) ==
  IF r.bt = <<>> THEN [r EXCEPT !.st = "fail"]
  ELSE LET f == r.bt[Len(r.bt)]
       IN [r EXCEPT !.pc = f.pc, !.pos = f.pos, !.line = f.line, !.col = f.col,
                    !.loops = f.loops, !.calls = f.calls, !.open = f.open,
                    !.env = IF "SharedEnv" \in Dev THEN r.env ELSE f.env,
                    !.lenv = IF "SharedEnv" \in Dev THEN r.lenv ELSE f.lenv,
                    !.bt = SubSeq(r.bt, 1, Len(r.bt) - 1)]

(* READ(k): the k bytes at pos, or nothing when they are not all there      *)
CanRead(r, k) == k > 0 /\ r.pos + k <= NT
Peek(r, k) == Slice(Text, r.pos, r.pos + k)

RECURSIVE AdvLC(_, _, _)
AdvLC(l, c, bs) ==                  \* line/column after consuming bytes bs
  IF bs = <<>> THEN <<l, c>>
  ELSE IF bs[1] = 10 THEN AdvLC(l + 1, 1, Tail(bs)) ELSE AdvLC(l, c + 1, Tail(bs))
Consume(r, k) ==
  IF ~CanRead(r, k) THEN r
  ELSE LET lc == AdvLC(r.line, r.col, Peek(r, k))
       IN [r EXCEPT !.pos = @ + k, !.line = lc[1], !.col = lc[2]]

MatchBytes(r, s, neg, ci_) ==        \* MATCH(value, not, caseless)
  LET k == Len(s) IN
  IF ~CanRead(r, k) THEN Backtrack(r)
  ELSE LET eq == IF ci_ THEN EqFold(Peek(r, k), s) ELSE Peek(r, k) = s
       IN IF eq # neg THEN NextPc(Consume(r, k)) ELSE Backtrack(r)

(* --------------------------------------------------------- instructions   *)
ExecLit(r, i) == MatchBytes(r, i.s, i.neg, i.ci)

CxCode == [t |-> Text, D |-> <<>>, q |-> QuirkCode]

ExecClass(r, i) ==
  IF i.k = "cls" THEN
       IF i.c = "any" /\ i.neg THEN Backtrack(r)
       ELSE IF ~CanRead(r, 1) THEN Backtrack(r)
       ELSE IF ClassHas(i.c, At(Text, r.pos)) # i.neg THEN NextPc(Consume(r, 1)) ELSE Backtrack(r)
  ELSE IF i.k = "anc" THEN
       IF AnchorHolds(CxCode, i.c, r.pos) # i.neg THEN NextPc(r) ELSE Backtrack(r)
  ELSE LET P == WholePaths(CxCode, [c |-> i.c, neg |-> i.neg], St0(r.pos))
       IN IF P = <<>> THEN Backtrack(r) ELSE NextPc(Consume(r, P[1].pos - r.pos))

RECURSIVE RangeTry(_, _, _)
RangeTry(r, i, k) ==                 \* MATCHRANGE: lengths from Len(b) down to Len(a)
  IF k < Len(i.a) \/ k < 1 THEN Backtrack(r)
  ELSE IF CanRead(r, k) /\ LexLE(i.a, Peek(r, k)) /\ LexLE(Peek(r, k), i.b) THEN NextPc(Consume(r, k))
  ELSE RangeTry(r, i, k - 1)
ExecRng(r, i) == RangeTry(r, i, Len(i.b))

ExecVar(r, i) ==
  IF i.name \notin DOMAIN r.env THEN Backtrack(r)
  ELSE IF r.env[i.name] = <<>>
       THEN (IF "EmptyBackrefFails" \in Dev THEN Backtrack(r) ELSE NextPc(r))
  ELSE MatchBytes(r, r.env[i.name], FALSE, FALSE)

CallRec(id, ret, r) == [id |-> id, ret |-> ret, smo |-> r.pos - from]
ExecCall(r, i) == JumpTo([r EXCEPT !.calls = Append(@, CallRec(i.to, r.pc + 1, r))], i.to)

RECURSIVE PushAlts(_, _, _)
PushAlts(r, ts, j) ==                \* checkpoints for alternatives n..2, in that order
  IF j < 2 THEN r ELSE PushAlts(Checkpoint(JumpTo(r, ts[j])), ts, j - 1)
ExecBranch(r, i) == JumpTo(PushAlts(r, i.targets, Len(i.targets)), i.targets[1])

ExecNotInStart(r, i) == JumpTo(Checkpoint(JumpTo(r, i.next)), r.pc + 1)
ExecNotInFail(r)     == Backtrack(Backtrack(r))
ExecNotInEnd(r, i)   == LET c == Consume(r, i.max)
                        IN IF c.pos = r.pos THEN Backtrack(r) ELSE NextPc(c)

(* loop protocol: DESIGN.md Appendix B                                       *)
TopLoop(r) == r.loops[Len(r.loops)]
(* INSERTVARIABLE: a binding goes to the current iteration of the nearest    *)
(* NAMED loop on the loop stack, else to the top-level environment           *)
NamedIdx(r) == {j \in 1..Len(r.loops) : r.loops[j].name # ""}
InsertStr(r, x, v) ==
  IF NamedIdx(r) = {} THEN [r EXCEPT !.env = Bind(@, x, v)]
  ELSE LET j == MaxOf(NamedIdx(r)) key == ItKey(r.loops[MaxOf(NamedIdx(r))].it)
       IN [r EXCEPT !.loops[j].vars[key].s = Bind(@, x, v)]
InsertLoop(r, x, lv) ==
  IF NamedIdx(r) = {} THEN [r EXCEPT !.lenv = Bind(@, x, lv)]
  ELSE LET j == MaxOf(NamedIdx(r)) key == ItKey(r.loops[MaxOf(NamedIdx(r))].it)
       IN [r EXCEPT !.loops[j].vars[key].l = Bind(@, x, lv)]
(* POPLOOPSTACK: a named loop hands its per-iteration maps to the enclosing  *)
(* scope                                                                     *)
PopLoop(r) ==
  LET top == TopLoop(r)
      r1  == [r EXCEPT !.loops = SubSeq(@, 1, Len(@) - 1)]
  IN IF top.name = "" THEN r1 ELSE InsertLoop(r1, top.name, top.vars)
ExecLoopStart(r, i) ==
  LET fresh == r.loops = <<>> \/ TopLoop(r).id # i.id \/ TopLoop(r).depth # Len(r.calls)
      rel   == r.pos - from
  IN IF ~fresh /\ TopLoop(r).start = rel /\ "NoZeroWidthGuard" \notin Dev THEN Backtrack(r)
     ELSE LET r1 == IF fresh
                    THEN [r EXCEPT !.loops = Append(@, [id |-> i.id, depth |-> Len(r.calls), it |-> 0, start |-> rel,
                                                        name |-> i.name, vars |-> (ItKey(0) :> EmptyIM)])]
                    ELSE [r EXCEPT !.loops[Len(r.loops)].it = @ + 1, !.loops[Len(r.loops)].start = rel,
                                   !.loops[Len(r.loops)].vars = (ItKey(TopLoop(r).it + 1) :> EmptyIM) @@ @]
              it == TopLoop(r1).it
              within == i.max = -1 \/ it <= i.max
          IN IF it < i.min THEN NextPc(r1)
             ELSE IF within /\ i.few
                  THEN JumpTo(PopLoop(Checkpoint(NextPc(r1))), i.exit + 1)
             ELSE IF within
                  THEN LET ls == TopLoop(r1)
                           r2 == Checkpoint(JumpTo(PopLoop(r1), i.exit + 1))
                       IN JumpTo([r2 EXCEPT !.loops = Append(@, ls)], r1.pc + 1)
             ELSE Backtrack(r1)
ExecLoopStop(r, i) == JumpTo(r, i.start)

ExecVarStart(r, i) == NextPc([r EXCEPT !.open = Append(@, [name |-> i.name, start |-> r.pos - from])])
ExecVarEnd(r, i) ==
  IF r.open = <<>> \/ r.open[Len(r.open)].name # i.name THEN [r EXCEPT !.st = "stuck"]
  ELSE LET rec == r.open[Len(r.open)]
           val == Slice(Text, from + rec.start, r.pos)
       IN NextPc(InsertStr([r EXCEPT !.open = SubSeq(@, 1, Len(@) - 1)], i.name, val))

ExecSubStart(r, i) ==
  LET need == r.calls = <<>> \/ r.calls[Len(r.calls)].id # i.id
  IN NextPc(IF need THEN [r EXCEPT !.calls = Append(@, CallRec(i.id, i.end + 1, r))] ELSE r)
Return(r) ==
  IF r.calls = <<>> THEN [r EXCEPT !.st = "stuck"]
  ELSE JumpTo([r EXCEPT !.calls = SubSeq(@, 1, Len(@) - 1)], r.calls[Len(r.calls)].ret)
ExecSubEnd(r, i) ==
  IF i.pred = <<>> THEN Return(r)
  ELSE IF r.calls = <<>> THEN [r EXCEPT !.st = "stuck"]
  ELSE LET smo == IF "PredicateSeesWholeMatch" \in Dev THEN 0 ELSE r.calls[Len(r.calls)].smo
           h   == PredicateHolds(i.pred, PredEnv(Slice(Text, from + smo, r.pos)))
       IN IF h.ok /\ h.b THEN Return(r) ELSE Backtrack(r)

ExecJump(r, i) == JumpTo(r, i.to)

Exec(r, i) ==
  CASE i.op = "lit"    -> ExecLit(r, i)
    [] i.op = "class"  -> ExecClass(r, i)
    [] i.op = "rng"    -> ExecRng(r, i)
    [] i.op = "var"    -> ExecVar(r, i)
    [] i.op = "call"   -> ExecCall(r, i)
    [] i.op = "branch" -> ExecBranch(r, i)
    [] i.op = "notin+" -> ExecNotInStart(r, i)
    [] i.op = "notin-" -> ExecNotInFail(r)
    [] i.op = "notin!" -> ExecNotInEnd(r, i)
    [] i.op = "loop+"  -> ExecLoopStart(r, i)
    [] i.op = "loop-"  -> ExecLoopStop(r, i)
    [] i.op = "var+"   -> ExecVarStart(r, i)
    [] i.op = "var-"   -> ExecVarEnd(r, i)
    [] i.op = "sub+"   -> ExecSubStart(r, i)
    [] i.op = "sub-"   -> ExecSubEnd(r, i)
    [] i.op = "jump"   -> ExecJump(r, i)

(* after every instruction: running off the end of the code is success      *)
Settle(r) == IF r.st = "run" /\ r.pc >= CodeLen THEN [r EXCEPT !.st = "ok"] ELSE r

(* ---------------------------------------------------------------- actions *)
ScanGuard(n) == Amt.all \/ n < Amt.skip + Amt.take

Init ==
  /\ ci \in 1..Len(Cases)
  /\ ti \in 1..Len(CaseTab[ci].texts)
  /\ from = 0 /\ fline = 1 /\ fcol = 1 /\ matchNo = 0 /\ out = <<>> /\ steps = 0
  /\ LET n == Len(CaseTab[ci].texts[ti]) IN
     IF n = 0 \/ ~(CaseTab[ci].amt.all \/ 0 < CaseTab[ci].amt.skip + CaseTab[ci].amt.take)
     THEN phase = "done" /\ m = Fresh(0, 1, 1)
     ELSE phase = "attempt" /\ m = Settle(Fresh(0, 1, 1))

StepOp(op) ==
  /\ phase = "attempt" /\ m.st = "run"
  /\ Instr(m.pc).op = op
  /\ m' = Settle(Exec(m, Instr(m.pc)))
  /\ steps' = steps + 1
  /\ UNCHANGED <<ci, ti, from, fline, fcol, matchNo, out, phase>>

DoLiteral   == StepOp("lit")
DoClass     == StepOp("class")
DoRange     == StepOp("rng")
DoVar       == StepOp("var")
DoCall      == StepOp("call")
DoBranch    == StepOp("branch")
DoStartNotIn == StepOp("notin+")
DoFailNotIn == StepOp("notin-")
DoEndNotIn  == StepOp("notin!")
DoStartLoop == StepOp("loop+")
DoStopLoop  == StepOp("loop-")
DoStartVar  == StepOp("var+")
DoEndVar    == StepOp("var-")
DoStartSub  == StepOp("sub+")
DoEndSub    == StepOp("sub-")
DoJump      == StepOp("jump")

MatchRec(n) ==
  [s |-> from, e |-> m.pos, n |-> n, vars |-> FlatIM([s |-> m.env, l |-> m.lenv]), svars |-> m.env,
   ls |-> fline, le |-> m.line, cs |-> fcol, ce |-> m.col]

Limit(q, n) == IF n # 0 /\ Len(q) > n THEN SubSeq(q, Len(q) - n + 1, Len(q)) ELSE q

(* the attempt ended with a non-empty match                                 *)
AttemptSucceed ==
  /\ phase = "attempt" /\ m.st = "ok" /\ m.pos > from
  /\ out' = IF matchNo >= Amt.skip THEN Limit(Append(out, MatchRec(matchNo + 1)), Amt.last) ELSE out
  /\ matchNo' = matchNo + 1
  /\ IF "SkipAdvancesOneByte" \in Dev /\ matchNo < Amt.skip
     THEN LET lc == AdvLC(fline, fcol, <<At(Text, from)>>)
          IN from' = from + 1 /\ fline' = lc[1] /\ fcol' = lc[2]
     ELSE from' = m.pos /\ fline' = m.line /\ fcol' = m.col
  /\ phase' = "between"
  /\ UNCHANGED <<ci, ti, m, steps>>

(* the attempt failed, or matched nothing: advance one byte                 *)
AttemptFail ==
  /\ phase = "attempt" /\ (m.st = "fail" \/ (m.st = "ok" /\ m.pos = from))
  /\ LET lc == AdvLC(fline, fcol, <<At(Text, from)>>)
     IN from' = from + 1 /\ fline' = lc[1] /\ fcol' = lc[2]
  /\ phase' = "between"
  /\ UNCHANGED <<ci, ti, m, matchNo, out, steps>>

(* loop bottom (`fileOffset >= size`) and loop top (amount window)          *)
ScanNext ==
  /\ phase = "between"
  /\ IF from >= NT \/ ~ScanGuard(matchNo)
     THEN phase' = "done" /\ UNCHANGED m
     ELSE phase' = "attempt" /\ m' = Settle(Fresh(from, fline, fcol))
  /\ UNCHANGED <<ci, ti, from, fline, fcol, matchNo, out, steps>>

Next ==
  \/ DoLiteral \/ DoClass \/ DoRange \/ DoVar \/ DoCall \/ DoBranch
  \/ DoStartNotIn \/ DoFailNotIn \/ DoEndNotIn \/ DoStartLoop \/ DoStopLoop
  \/ DoStartVar \/ DoEndVar \/ DoStartSub \/ DoEndSub \/ DoJump
  \/ AttemptSucceed \/ AttemptFail \/ ScanNext

Spec == Init /\ [][Next]_vars /\ WF_vars(Next)

(* ------------------------------------------------------------- invariants *)
(* C01/C02/C04: the machine, run on Codegen's output, computes the          *)
(* reference semantics (spans, numbers, lines, columns, environments)       *)
RefinesSemantics ==
  phase = "done" /\ ~HasF(Cases[ci], "code") =>
    LET c    == Cases[ci]
        defs == IF HasF(c, "defs") THEN c.defs ELSE <<>>
        kk   == IF HasF(c, "cmdk") THEN c.cmdk ELSE 1
        cx   == Ctx(Text, defs, c.cmds[kk].body, QuirkCode)
        E    == IF Text = <<>> THEN <<>> ELSE Window(FindAll(cx, c.cmds[kk].body), c.cmds[kk].amt)
    IN out = E

(* C03: every reported match is a faithful, ordered, located slice          *)
MatchWF ==
  \A j \in 1..Len(out) :
    /\ 0 <= out[j].s /\ out[j].s < out[j].e /\ out[j].e <= NT
    /\ out[j].ls = LineOf(Text, out[j].s) /\ out[j].le = LineOf(Text, out[j].e)
    /\ out[j].cs = ColOf(Text, out[j].s) /\ out[j].ce = ColOf(Text, out[j].e)
    /\ (j > 1 => out[j - 1].e <= out[j].s /\ out[j].n = out[j - 1].n + 1)
    /\ \A x \in DOMAIN out[j].svars :
         \E a \in out[j].s..out[j].e : \E b \in a..out[j].e : out[j].svars[x] = Slice(Text, a, b)

(* the machine's line/column registers always agree with the position       *)
LineColOK ==
  /\ m.line = LineOf(Text, m.pos) /\ m.col = ColOf(Text, m.pos)
  /\ fline = LineOf(Text, from) /\ fcol = ColOf(Text, from)

(* C09: the engine's "impossible" states are unreachable for every program  *)
(* the generator emits: no stuck state, no fetch beyond the code, every     *)
(* jump target inside the code, stacks consistent                           *)
NoStuck ==
  /\ m.st # "stuck"
  /\ (phase = "attempt" /\ m.st = "run") => (m.pc >= 0 /\ m.pc < CodeLen)
  /\ phase = "attempt" =>
       /\ m.pos >= from /\ m.pos <= NT
       /\ \A j \in 1..Len(m.bt) : m.bt[j].pc >= 0 /\ m.bt[j].pc <= CodeLen /\ m.bt[j].pos >= from

(* C10, safety form                                                         *)
StepBound == steps <= MaxSteps

Terminates == <>(phase = "done")

(* the machine as oracle: the result list and the instruction count of each  *)
(* finished run                                                             *)
EmitDone ==
  phase = "done" => PrintT(ToJson([id |-> Cases[ci].id, t |-> Text, ms |-> out, steps |-> steps]))

TypeOK ==
  /\ phase \in {"attempt", "between", "done"}
  /\ m.st \in {"run", "ok", "fail", "stuck"}
  /\ matchNo >= 0 /\ from >= 0 /\ from <= NT + 1
=============================================================================
