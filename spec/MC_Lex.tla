------------------------------- MODULE MC_Lex -------------------------------
(* Model-checking jobs on the lexer automaton.                              *)
(* (1) LexTotal: the input is chosen one character at a time from one        *)
(*     representative per lexer-relevant class (or ends); whatever was       *)
(*     typed so far, lexing the text ends in a token list or a LexError --   *)
(*     never "Unknown final state", never a loop that does not consume.      *)
(*     The state is the text typed so far, bounded in length; a VIEW is not  *)
(*     needed at this size.                                                  *)
(* (2) Spellings: every spelling of every byte 1..127 denotes that byte.     *)
EXTENDS Lexer, Sequences, Json

CONSTANTS MaxLen, RepSet

(* one representative per lexer-relevant character class                     *)
LexReps   == { 97, 102, 120, 49, 32, 10, 39, 34, 92, 45, 40, 41, 123, 125, 44, 61, 33, 58, 60, 62, 43, 64, 47, 35, 0 }
(* the symbols of the regex sub-parser: ( ) [ ] { } ? * + | \ ^ $ . , - < > : = ! a 1 k d *)
RegexReps == { 40, 41, 91, 93, 123, 125, 63, 42, 43, 124, 92, 94, 36, 46, 44, 45, 60, 62, 58, 61, 33, 97, 49, 107, 100 }
Reps == IF RepSet = "lex" THEN LexReps ELSE RegexReps

VARIABLE src
Init == src = <<>>
Next == Len(src) < MaxLen /\ \E c \in Reps : src' = Append(src, c)
Spec == Init /\ [][Next]_src

LexTotal ==
  LET r == Lex(src) IN
  /\ r.why \notin {"PANIC", "HANG"}
  /\ \A j \in 1..Len(r.toks) : r.toks[j].kind # "PANIC"

(* the lexer's verdict for every enumerated source (oracle for the replay)  *)
EmitLex == PrintT(ToJson([src |-> src, ok |-> Lex(src).ok]))
EmitSrc == PrintT(ToJson([src |-> src]))

(* every token consumes at least one character: the scan advances           *)
Progress ==
  \A p \in 0..Len(src) :
    LET r == LexTok(src, p) IN r.st # "FUEL" /\ (KindOf(r.st, r.buf) \notin {"EOF", "LEXERROR", "PANIC", "HANG"} => r.next > p)

(* ---- spellings (checked as an assumption: a finite table)                 *)
SpellingsDenote ==
  \A b \in 1..127 : \A q \in {Q1, Q2} : \A sp \in SpellingsOf(b, q) :
    Denote(q, sp).ok /\ Denote(q, sp).s = <<b>>
(* an incomplete \x keeps all of its following characters                    *)
IncompleteHexKeeps ==
  \A q \in {Q1, Q2} : \A t \in {<<>>, <<49>>, <<103>>, <<49, 103>>, <<103, 49>>, <<103, 103>>, <<32, 49>>} :
    Denote(q, <<BSL, 120>> \o t).ok /\ Denote(q, <<BSL, 120>> \o t).s = <<120>> \o t
=============================================================================
