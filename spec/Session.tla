------------------------------- MODULE Session -------------------------------
(* Concurrent Compile: N processes, each parsing a source with G[p] regex    *)
(* capture groups, all using ONE shared counter (libvore/ast/parser.go       *)
(* capture_group_number): reset at the start of a parse, incremented and     *)
(* read for every group.  With the parse serialised (Locked) every           *)
(* interleaving numbers the groups 1..G[p]; without, TLC exhibits the        *)
(* interleaving that mis-numbers a group.                                    *)
EXTENDS Integers, Sequences, FiniteSets, TLC

CONSTANTS Procs,     \* set of process ids
          G,         \* G[p] = number of capture groups in p's source
          Locked     \* BOOLEAN: the parse holds a mutex

VARIABLES counter, lock, pc, done, names
svars == <<counter, lock, pc, done, names>>

Init ==
  /\ counter = 0 /\ lock = 0
  /\ pc = [p \in Procs |-> "start"]
  /\ done = [p \in Procs |-> 0]
  /\ names = [p \in Procs |-> <<>>]

Acquire(p) ==
  /\ pc[p] = "start"
  /\ IF Locked THEN lock = 0 /\ lock' = p ELSE UNCHANGED lock
  /\ pc' = [pc EXCEPT ![p] = "reset"]
  /\ UNCHANGED <<counter, done, names>>

Reset(p) ==
  /\ pc[p] = "reset"
  /\ counter' = 0
  /\ pc' = [pc EXCEPT ![p] = IF G[p] = 0 THEN "end" ELSE "inc"]
  /\ UNCHANGED <<lock, done, names>>

Inc(p) ==
  /\ pc[p] = "inc"
  /\ counter' = counter + 1
  /\ pc' = [pc EXCEPT ![p] = "read"]
  /\ UNCHANGED <<lock, done, names>>

Read(p) ==
  /\ pc[p] = "read"
  /\ names' = [names EXCEPT ![p] = Append(@, counter)]
  /\ done' = [done EXCEPT ![p] = @ + 1]
  /\ pc' = [pc EXCEPT ![p] = IF done[p] + 1 = G[p] THEN "end" ELSE "inc"]
  /\ UNCHANGED <<lock, counter>>

End(p) ==
  /\ pc[p] = "end"
  /\ IF Locked THEN lock' = 0 ELSE UNCHANGED lock
  /\ pc' = [pc EXCEPT ![p] = "finished"]
  /\ UNCHANGED <<counter, done, names>>

Next == \E p \in Procs : Acquire(p) \/ Reset(p) \/ Inc(p) \/ Read(p) \/ End(p)
Spec == Init /\ [][Next]_svars /\ WF_svars(Next)

(* every call returns what it returns when executed alone                   *)
SequentialNames == \A p \in Procs : pc[p] = "finished" => names[p] = [j \in 1..G[p] |-> j]
(* the counter sections of different processes never overlap                *)
Exclusive == Cardinality({p \in Procs : pc[p] \in {"reset", "inc", "read", "end"}}) <= 1
AllFinish == <>(\A p \in Procs : pc[p] = "finished")
=============================================================================
