----------------------------- MODULE ExprScope -----------------------------
(* Quantifiers of C11 (operator tables, precedence) and C12 (typing rules). *)
EXTENDS Scope

PBool(b) == [k |-> "bool", v |-> b]
AllBinOps == ArithOps \cup CmpOps \cup BoolOps

S0 == <<48>>   S7 == <<55>>   S10 == <<49, 48>>   Sabc == <<97, 98, 99>>   Sa == <<97>>
Neg1 == PBin("-", PNum(0), PNum(1))

NumL  == {PNum(0), PNum(1), PNum(2), PNum(7), Neg1, PVar("matchLength")}
StrL  == {PStr(<<>>), PStr(S0), PStr(S7), PStr(S10), PStr(Sabc), PStr(Sa), PVar("match"), PVar("nosuchvar")}
BoolL == {PBool(TRUE), PBool(FALSE)}
L1 == NumL \cup StrL \cup BoolL

Defined(e) == TypeOf(e, TEnv0) # "e"
MatchEnv == [x \in {"match", "matchLength", "matchNumber"} |->
               CASE x = "match" -> VS(Sa) [] x = "matchLength" -> VN(1) [] x = "matchNumber" -> VN(1)]
HasValue(e) == ~IsUndef(Eval(e, MatchEnv))

(* every operator x operand pair                                            *)
C11_Table == {PBin(op, l, r) : op \in AllBinOps, l \in L1, r \in L1}
               \cup {PUn(op, l) : op \in PrefixOps, l \in L1}

(* strings that look like numbers in other notations: the coercion is       *)
(* decimal (optional sign, digits), everything else counts as 0             *)
StrNum == {PStr(<<48, 49, 48>>), PStr(<<48, 56>>), PStr(<<48, 120, 49, 48>>), PStr(<<49, 95, 48>>), PStr(<<43, 53>>), PStr(<<45, 51>>),
           PStr(<<48, 98, 49>>), PStr(<<32, 55>>), PStr(<<48, 111, 55>>)}
C11_Coerce == {PBin(op, n, x) : op \in ArithOps \cup CmpOps, n \in {PNum(7), PNum(0), PNum(8)}, x \in StrNum}
                \cup {PBin(op, x, n) : op \in ArithOps \cup CmpOps, n \in {PNum(7), PNum(2)}, x \in StrNum}
                \* a string counts as true exactly when it is not empty: blanks are characters
                \cup {PBin(op, PBool(b), x) : op \in BoolOps \cup CmpOps, b \in BOOLEAN,
                                               x \in {PStr(<<32>>), PStr(<<32, 9>>), PStr(<<10>>), PStr(<<32, 48>>), PStr(<<102, 97, 108, 115, 101>>)}}

(* precedence and associativity: every pair of operators in both shapes     *)
Triples == { <<PNum(7), PNum(2), PNum(3)>>, <<PStr(S7), PNum(2), PNum(3)>>, <<PStr(S7), PStr(<<50>>), PStr(<<51>>)>>,
             <<PBool(TRUE), PBool(FALSE), PBool(TRUE)>>, <<PNum(7), PStr(<<50>>), PBool(TRUE)>>,
             <<PBool(FALSE), PNum(2), PNum(0)>> }
C11_Pairs == {PBin(o2, PBin(o1, t[1], t[2]), t[3]) : o1 \in AllBinOps, o2 \in AllBinOps, t \in Triples}
               \cup {PBin(o1, t[1], PBin(o2, t[2], t[3])) : o1 \in AllBinOps, o2 \in AllBinOps, t \in Triples}
C11_Unary == {PUn("not", PBin(o, t[1], t[2])) : o \in CmpOps \cup BoolOps, t \in Triples}
               \cup {PBin(o, PUn("not", PBool(TRUE)), PBool(FALSE)) : o \in CmpOps \cup BoolOps}
               \cup {PBin(o, PUn(u, PStr(Sabc)), PStr(Sa)) : o \in {"+"} \cup CmpOps, u \in {"head", "tail"}}
               \cup {PUn(u, PBin("+", PStr(Sabc), PStr(S7))) : u \in {"head", "tail"}}
               \cup {PUn("not", PUn("not", PBool(TRUE))), PUn("head", PUn("tail", PStr(Sabc))), PUn("tail", PUn("tail", PStr(Sabc)))}
               \* head and tail work on bytes, also inside a multi-byte character
               \cup {PUn(u, PStr(x)) : u \in {"head", "tail"}, x \in {<<195, 169>>, <<195, 169, 97>>, <<226, 130, 172>>, <<97, 195, 169>>}}
               \cup {PUn("head", PUn("tail", PStr(<<226, 130, 172>>))), PUn("tail", PUn("tail", PStr(<<195, 169, 97>>))),
                     PBin("+", PUn("tail", PStr(<<195, 169>>)), PStr(Sa)), PBin("==", PUn("head", PStr(<<195, 169>>)), PUn("head", PStr(<<195, 160>>)))}
Ops4 == {"+", "*", "-", "<", "==", "and"}
C11_Deep == {PBin(o3, PBin(o2, PBin(o1, PNum(7), PNum(2)), PNum(3)), PNum(5)) : o1 \in Ops4, o2 \in Ops4, o3 \in Ops4}
              \cup {PBin(o1, PNum(7), PBin(o2, PNum(2), PBin(o3, PNum(3), PNum(5)))) : o1 \in Ops4, o2 \in Ops4, o3 \in Ops4}
              \cup {PBin(o2, PBin(o1, PNum(7), PNum(2)), PBin(o3, PNum(3), PNum(5))) : o1 \in Ops4, o2 \in Ops4, o3 \in Ops4}

C11_Exprs(tier) ==
  {e \in C11_Table \cup C11_Pairs \cup C11_Unary \cup C11_Deep \cup C11_Coerce : Defined(e) /\ HasValue(e)}

(* how the value of e is made observable                                    *)
TStr == <<84>>   FStr == <<70>>
Observe(e) ==
  IF TypeOf(e, TEnv0) = "b"
  THEN <<SIf(e, <<SRet(PStr(TStr))>>, <<>>), SRet(PStr(FStr))>>
  ELSE <<SRet(e)>>

C11_Case(id, e) ==
  [id |-> id, defs |-> <<>>,
   trans |-> << [name |-> "f", stmts |-> Observe(WithToks(e, RenderMin(e)))],
                [name |-> "g", stmts |-> Observe(WithToks(e, RenderFull(e)))] >>,
   cmds |-> <<[kind |-> "replace", amt |-> [k |-> "all"], body |-> <<La>>,
               with |-> <<WName("f"), WStr(<<124>>), WName("g")>>]>>,
   texts |-> <<<<ba>>>>]

(* boolean expressions additionally decide a predicate                      *)
C11_PredCase(id, e) ==
  [id |-> id, defs |-> <<GDef("p", <<La>>, <<SRet(WithToks(e, RenderMin(e)))>>)>>,
   cmds |-> <<FindAllCmd(<<Ref("p")>>)>>, texts |-> <<<<ba>>, <<bb, ba>>>>]

(* the specification's own consistency: minimal and full parenthesisation   *)
(* both parse back, by the documented levels, to the tree                   *)
RoundTrip(e) == /\ ParseExpr(RenderMin(e)).ok  /\ ParseExpr(RenderMin(e)).e = e
                /\ ParseExpr(RenderFull(e)).ok /\ ParseExpr(RenderFull(e)).e = e

(* ===================================================================== C12 *)
EN == {PNum(1), PBin("+", PNum(1), PNum(2)), PVar("matchLength")}
ES == {PStr(Sa), PVar("match"), PBin("+", PStr(Sa), PNum(1)), PUn("head", PVar("match"))}
EB == {PBool(TRUE), PBin("==", PVar("match"), PStr(Sa)), PBin("<", PNum(1), PNum(2)), PUn("not", PBool(FALSE))}
EBad == {PBin("and", PNum(1), PBool(TRUE)), PBin("-", PBool(TRUE), PNum(1)), PUn("not", PNum(1)), PUn("head", PNum(1)),
         PBin("*", PStr(Sa), PStr(Sa)), PBin("+", PBool(TRUE), PNum(1)), PBin("or", PStr(Sa), PBool(TRUE)),
         PBin("-", PStr(S7), PVar("match"))}
EAll == EN \cup ES \cup EB \cup EBad

SBrk == [k |-> "brk"]   SCont == [k |-> "cont"]
SLoop(b) == [k |-> "loop", body |-> b]
SDbg(e) == [k |-> "dbg", e |-> e]

(* every operator applied to every pair of operand types (typed leaves)     *)
\* the replacer's built-ins other than matchNumber are strings, inside transforms too (they read as text, `head` applies, `-` does not)
TypedLeaves == {PStr(Sa), PNum(1), PBool(TRUE), PVar("match"), PVar("matchLength"), PBin("==", PNum(1), PNum(1)),
                PVar("startOffset"), PVar("lineNumber")}
TypeTable == {SDbg(PBin(op, l, r)) : op \in AllBinOps, l \in TypedLeaves, r \in TypedLeaves}
               \cup {SDbg(PUn(u, l)) : u \in PrefixOps, l \in TypedLeaves}
               \cup {SRet(PBin(op, l, r)) : op \in {"+", "-", "==", "and"}, l \in TypedLeaves, r \in TypedLeaves}
               \* an ill-typed operand on either side, also nested one level down
               \cup {SDbg(PBin(op, l, b)) : op \in {"+", "<", "and", "==", "*"}, l \in TypedLeaves, b \in EBad}
               \cup {SDbg(PBin(op, b, l)) : op \in {"+", "<", "and", "==", "*"}, l \in TypedLeaves, b \in EBad}
               \cup {SRet(PBin("+", PStr(Sa), PUn(u, b))) : u \in PrefixOps, b \in EBad \cup {PNum(1)}}
               \cup {SIf(PBin("==", PStr(Sa), b), <<SRet(PStr(Sa))>>, <<>>) : b \in EBad}



(* variables keep one type: n* numbers, s* strings, b* booleans             *)
Simple ==
  {SRet(e) : e \in EAll} \cup {SDbg(e) : e \in {PNum(1), PStr(Sa), PBool(TRUE)} \cup EBad}
    \cup {SSet("n", e) : e \in EN} \cup {SSet("s", e) : e \in ES} \cup {SSet("b", e) : e \in EB}
    \cup {SSet("q", e) : e \in EBad} \cup {SBrk, SCont}
    \cup {SRet(PVar("n")), SRet(PVar("s")), SRet(PVar("b")), SRet(PBin("+", PVar("n"), PNum(1))),
          SRet(PBin("and", PVar("b"), PBool(TRUE)))}
Thin == {SRet(PNum(1)), SRet(PStr(Sa)), SRet(PBool(TRUE)), SBrk, SCont, SSet("n", PNum(1)), SSet("b", PBool(TRUE)),
         SRet(PVar("n")), SRet(PVar("b")), SRet(PBin("and", PNum(1), PBool(TRUE)))}
Conds == {PBool(TRUE), PBin("==", PVar("match"), PStr(Sa)), PNum(1), PStr(Sa), PVar("b"), PVar("n")}
Compound ==
  {SIf(c, <<t>>, <<>>) : c \in Conds, t \in Thin} \cup {SIf(c, <<t>>, <<e>>) : c \in {PBool(TRUE), PNum(1)}, t \in Thin, e \in Thin}
    \cup {SLoop(<<t>>) : t \in Thin} \cup {SLoop(<<t, SBrk>>) : t \in Thin}
    \cup {SLoop(<<SLoop(<<t>>), u>>) : t \in {SBrk, SCont, SRet(PNum(1))}, u \in {SBrk, SCont, SRet(PStr(Sa))}}
    \cup {SLoop(<<SIf(PBool(TRUE), <<t>>, <<u>>)>>) : t \in {SBrk, SCont}, u \in {SBrk, SRet(PBool(TRUE))}}
    \cup {SIf(PBool(TRUE), <<SLoop(<<SBrk>>), t>>, <<>>) : t \in {SBrk, SCont, SRet(PNum(1))}}
(* bodies of several statements: an ill-typed statement before or after     *)
(* well-typed ones, in every kind of nested body                            *)
BadStmts == {SSet("q", PBin("*", PStr(Sa), PStr(Sa))), SDbg(PBin("and", PNum(1), PBool(TRUE))), SIf(PNum(1), <<SRet(PStr(Sa))>>, <<>>),
             SBrk, SRet(PUn("head", PNum(1)))}
GoodStmts == {SSet("n", PNum(1)), SRet(PStr(Sa)), SRet(PBool(TRUE)), SDbg(PNum(1)), SIf(PBool(TRUE), <<SRet(PStr(Sa))>>, <<>>)}
NestedSeq ==
  UNION {{SIf(PBool(TRUE), <<b, g>>, <<>>), SIf(PBool(TRUE), <<g, b>>, <<>>), SIf(PBool(TRUE), <<g>>, <<b, g>>), SLoop(<<b, g, SBrk>>),
          SLoop(<<SIf(PBool(TRUE), <<b, g>>, <<>>), SBrk>>), SIf(PBool(TRUE), <<SIf(PBool(FALSE), <<g>>, <<b, g>>)>>, <<>>)}
           : b \in BadStmts, g \in GoodStmts}
(* `continue` and `break` directly after another statement inside a loop body *)
AfterStmt == UNION {{SLoop(<<g, SCont, SBrk>>), SLoop(<<SIf(PBool(TRUE), <<g, SCont>>, <<>>), SBrk>>), SLoop(<<g, SBrk>>),
                     SLoop(<<SIf(PBool(FALSE), <<g, SBrk>>, <<g, SCont>>), SBrk>>)}
                    : g \in {SSet("n", PNum(1)), SDbg(PNum(1)), SDbg(PVar("match")), SSet("s", PBin("+", PVar("match"), PStr(Sa)))}}
EBadFwd == EBad
C12_Lists(tier) ==
  {<<a>> : a \in Simple \cup Compound \cup TypeTable \cup NestedSeq}
    \cup {<<a, SRet(PStr(Sa))>> : a \in AfterStmt} \cup {<<a, SRet(PBool(TRUE))>> : a \in AfterStmt}
    \cup {<<a, SRet(PStr(Sa))>> : a \in NestedSeq} \cup {<<a, SRet(PBool(TRUE))>> : a \in NestedSeq}
    \cup {<<SLoop(<<a, SBrk>>)>> : a \in {SRet(PVar("match")), SRet(PNum(1)), SRet(PBool(TRUE)), SRet(PBin("==", PNum(1), PNum(1)))}}
    \cup {<<SIf(PBool(TRUE), <<SLoop(<<a>>)>>, <<>>), SRet(PStr(Sa))>> : a \in {SRet(PVar("match")), SRet(PBool(TRUE)), SBrk}}
    \cup {<<a, b>> : a \in Thin \cup {SSet("s", PStr(Sa))}, b \in Simple \cup Compound}
    \cup {<<a, b>> : a \in Compound, b \in Thin}
    \cup {<<SSet("n", PNum(1)), SSet("b", PBool(TRUE)), c>> : c \in Simple \cup Compound}

C12_Case(id, ss, ctxk) ==
  IF ctxk = "trans"
  THEN [id |-> id, defs |-> <<>>, trans |-> <<[name |-> "f", stmts |-> ss]>>, ctx |-> "trans",
        accept |-> Check(ss, "trans"),
        cmds |-> <<[kind |-> "replace", amt |-> [k |-> "all"], body |-> <<La>>, with |-> <<WName("f")>>]>>,
        texts |-> <<<<ba>>, <<bb>>, <<ba, ba>>>>]
  ELSE [id |-> id, defs |-> <<GDef("p", <<Cls("any")>>, ss)>>, ctx |-> "pred",
        accept |-> Check(ss, "pred"),
        cmds |-> <<FindAllCmd(<<Ref("p")>>)>>,
        texts |-> <<<<ba>>, <<bb>>, <<ba, ba>>>>]

(* two transforms (or a transform and a predicate) in one source: each is    *)
(* checked in an environment of its own - what one assigns does not type    *)
(* the other's names                                                        *)
C12_Writers == { <<SSet("x", PNum(1)), SRet(PStr(Sa))>>, <<SSet("x", PBool(TRUE)), SSet("y", PNum(2)), SRet(PStr(Sa))>>,
                 <<SSet("x", PStr(Sa)), SRet(PVar("x"))>>, <<SRet(PStr(Sa))>> }
C12_Readers == { <<SRet(PUn("head", PVar("x")))>>, <<SIf(PVar("x"), <<SRet(PStr(Sa))>>, <<>>), SRet(PStr(S7))>>,
                 <<SRet(PBin("+", PVar("x"), PNum(1)))>>, <<SRet(PBin("-", PVar("y"), PNum(1)))>>, <<SRet(PBin("and", PVar("x"), PBool(TRUE)))>>,
                 <<SSet("x", PNum(3)), SRet(PBin("*", PVar("x"), PNum(2)))>> }
C12_Case2(id, w, r, order) ==
  [id |-> id, defs |-> <<>>, ctx |-> "trans",
   trans |-> IF order = 1 THEN <<[name |-> "f", stmts |-> w], [name |-> "g", stmts |-> r]>>
                          ELSE <<[name |-> "g", stmts |-> r], [name |-> "f", stmts |-> w]>>,
   accept |-> Check(w, "trans") /\ Check(r, "trans"),
   cmds |-> <<[kind |-> "replace", amt |-> [k |-> "all"], body |-> <<La>>, with |-> <<WName("f"), WStr(<<124>>), WName("g")>>]>>,
   texts |-> <<<<ba>>, <<bb, ba>>>>]

(* ============================================================ C09, process *)
(* transforms applied to arbitrary match text: `match` in every operand     *)
(* position of every operator the checker accepts                           *)
C09P_Exprs ==
  LET X == {PNum(0), PNum(2), PStr(<<>>), PStr(S7), PBool(TRUE), PVar("matchLength")}
  IN {e \in {PBin(op, PVar("match"), x) : op \in AllBinOps, x \in X}
            \cup {PBin(op, x, PVar("match")) : op \in AllBinOps, x \in X}
            \cup {PBin(op, PVar("match"), PVar("match")) : op \in AllBinOps}
            \cup {PUn(u, PVar("match")) : u \in PrefixOps}
            \cup {PUn(u, PUn(v, PVar("match"))) : u \in {"head", "tail"}, v \in {"head", "tail"}}
            \cup {PUn(u, PStr(<<>>)) : u \in {"head", "tail"}} \cup {PUn(u, PBin("+", PVar("nosuchvar"), PStr(<<>>))) : u \in {"head", "tail"}}
            \cup {PBin("/", PNum(10), PBin("-", PVar("matchLength"), PNum(1))), PBin("%", PNum(7), PBin("*", PVar("match"), PNum(1)))}
        : Defined(e)}
RunBody == <<Loop(1, -1, FALSE, NotLit(<<sp>>))>>
C09P_Case(id, e) ==
  [id |-> id, defs |-> <<>>, trans |-> <<[name |-> "f", stmts |-> Observe(e)]>>,
   cmds |-> <<[kind |-> "replace", amt |-> [k |-> "all"], body |-> RunBody, with |-> <<WName("f")>>]>>,
   sigma |-> <<48, 55, 97, 45, sp>>, lo |-> 1, hi |-> 3]
(* predicates that do not reach a `return` for some candidates (the         *)
(* candidate is then kept), on every candidate the scan and the             *)
(* backtracking try                                                         *)
C09P_PredBodies ==
  LET long == PBin("<", PNum(2), PVar("matchLength"))
      isa  == PBin("==", PVar("match"), PStr(<<49>>))
  IN { <<SIf(long, <<SRet(PBool(FALSE))>>, <<>>)>>, <<SSet("n", PNum(1))>>, <<SLoop(<<SBrk>>)>>, <<SIf(isa, <<SRet(PBool(TRUE))>>, <<>>)>>,
       <<SDbg(PVar("match"))>>, <<SIf(long, <<SRet(PBool(TRUE))>>, <<SIf(isa, <<SRet(PBool(FALSE))>>, <<>>)>>)>>,
       <<SLoop(<<SIf(long, <<SRet(PBool(FALSE))>>, <<>>), SBrk>>)>>, <<SIf(isa, <<SRet(PBool(FALSE))>>, <<>>), SSet("n", PVar("matchLength"))>>,
       <<SRet(long)>>, <<SIf(long, <<>>, <<SRet(PBool(FALSE))>>)>> }
C09P_PredCase(id, ss) ==
  [id |-> id, defs |-> <<GDef("p", <<Loop(1, -1, FALSE, Cls("digit"))>>, ss)>>,
   cmds |-> <<FindAllCmd(<<Ref("p")>>)>>, sigma |-> <<49, 55, sp>>, lo |-> 1, hi |-> 4]
(* a variable typed by its last assignment, used after the other branch ran *)
FlowProbe ==
  [id |-> 0, defs |-> <<>>,
   trans |-> <<[name |-> "f", stmts |-> <<SIf(PBin("==", PVar("match"), PStr(Sa)), <<SSet("v", PBool(TRUE))>>, <<SSet("v", PStr(S7))>>),
                                          SRet(PBin("-", PVar("v"), PNum(1)))>>]>>,
   cmds |-> <<[kind |-> "replace", amt |-> [k |-> "all"], body |-> <<Cls("any")>>, with |-> <<WName("f")>>]>>,
   texts |-> <<<<ba>>, <<bb>>, <<bb, ba>>>>]
=============================================================================
