------------------------------- MODULE NamesFS -------------------------------
(* RunFiles with processFilenames = TRUE (the tool's -filenames flag): every *)
(* command is run on the NAME of each file instead of its content, no file   *)
(* content is read or written, and when the first match of a replace command *)
(* carries a non-empty replacement the file is renamed to that replacement.  *)
(* Anchors: libvore/engine/engine.go RunFiles.                               *)
(*                                                                           *)
(* Paths are byte strings relative to the working directory, with at most    *)
(* one directory level ("ab", "d/ab").  State: fs (path -> content), the     *)
(* directories, the current names of the arguments, and the position of the  *)
(* run (command k, argument a, files pending of the expanded argument).      *)
(*                                                                           *)
(* Deliberately modelled as the code behaves, although surprising: the new   *)
(* name is the replacement of the FIRST match alone (not the spliced name),  *)
(* and a file of a directory is renamed relative to the working directory.   *)
(*                                                                           *)
(* Case: [id, defs, trans, cmds, files : <<[path, bytes]>>, dirs : <<path>>, *)
(*        order : <<path>> (a file or a directory)]                          *)
EXTENDS Replace, Json, SequencesExt

CONSTANT CaseFile,
         Dev          \* deviation switches: "StaleArgs" = arguments keep their old name after a rename
Cases == ndJsonDeserialize(CaseFile)

VARIABLES ci, k, a, pend,
          args,    \* the arguments as the run currently knows them
          fs,      \* path -> content
          acc,     \* matches returned so far
          crashed  \* the run stat'ed a path that does not exist
nvars == <<ci, k, a, pend, args, fs, acc, crashed>>

C == Cases[ci]
HasFld(r, f) == f \in DOMAIN r
Slash == 47
Dirs == {C.dirs[j] : j \in 1..Len(C.dirs)}
FS0(c) == [p \in {c.files[j].path : j \in 1..Len(c.files)} |->
             (LET j == CHOOSE j \in 1..Len(c.files) : c.files[j].path = p IN c.files[j].bytes)]

(* lexicographic order on byte strings (os.ReadDir sorts by name)            *)
RECURSIVE LexLeq(_, _)
LexLeq(x, y) ==
  IF x = <<>> THEN TRUE ELSE IF y = <<>> THEN FALSE
  ELSE IF x[1] # y[1] THEN x[1] < y[1] ELSE LexLeq(Tail(x), Tail(y))
LexLess(x, y) == x # y /\ LexLeq(x, y)

HasSlash(p) == \E j \in 1..Len(p) : p[j] = Slash
LastSlash(p) == CHOOSE j \in 1..Len(p) : p[j] = Slash /\ \A j2 \in (j + 1)..Len(p) : p[j2] # Slash
DirPart(p) == IF HasSlash(p) THEN SubSeq(p, 1, LastSlash(p) - 1) ELSE <<>>
BasePart(p) == IF HasSlash(p) THEN SubSeq(p, LastSlash(p) + 1, Len(p)) ELSE p

(* the files of directory d, in listing order                               *)
Listing(d) == SetToSortSeq({p \in DOMAIN fs : DirPart(p) = d}, LexLess)

TransOf(c) ==
  LET tr == IF HasFld(c, "trans") THEN c.trans ELSE <<>>
  IN [x \in {tr[j].name : j \in 1..Len(tr)} |->
        (LET j == CHOOSE j \in 1..Len(tr) : tr[j].name = x IN tr[j].stmts)]

(* the matches of one command on the NAME t (the `filename` variable is t)  *)
MatchesOn(c, cmd, t) ==
  LET defs == IF HasFld(c, "defs") THEN c.defs ELSE <<>>
      E == Expect(t, defs, cmd.body, cmd.amt).ms
  IN IF cmd.kind = "find" THEN [j \in 1..Len(E) |-> [s |-> E[j].s, e |-> E[j].e, n |-> E[j].n, repl |-> <<>>, hasr |-> FALSE, file |-> t]]
     ELSE [j \in 1..Len(E) |->
             [s |-> E[j].s, e |-> E[j].e, n |-> E[j].n, hasr |-> TRUE, file |-> t,
              repl |-> Replacement(t, E[j], Len(E), t, TransOf(c), cmd.with).s]]

Init ==
  /\ ci \in 1..Len(Cases)
  /\ k = 1 /\ a = 1 /\ pend = <<>>
  /\ args = Cases[ci].order
  /\ fs = FS0(Cases[ci])
  /\ acc = <<>> /\ crashed = FALSE

Running == k <= Len(C.cmds) /\ ~crashed

(* os.Stat of the next argument; a directory is listed now                   *)
ExpandArg ==
  /\ Running /\ pend = <<>> /\ a <= Len(args)
  /\ LET x == args[a]
     IN IF x \in Dirs THEN pend' = Listing(x) /\ crashed' = FALSE
        ELSE IF x \in DOMAIN fs THEN pend' = <<x>> /\ crashed' = FALSE
        ELSE pend' = <<>> /\ crashed' = TRUE          \* stat fails: the engine panics
  /\ a' = a + 1
  /\ UNCHANGED <<ci, k, args, fs, acc>>

NextCommand ==
  /\ Running /\ pend = <<>> /\ a > Len(args)
  /\ k' = k + 1 /\ a' = 1
  /\ UNCHANGED <<ci, pend, args, fs, acc, crashed>>

(* os.Rename(f, target): fails (message on stderr, nothing changes) when the *)
(* source is gone, the target is empty, an existing directory, `.`/`..`, or  *)
(* lies in a directory that does not exist; replaces an existing file        *)
CanRename(f, target) ==
  /\ f \in DOMAIN fs
  /\ target # <<>> /\ target \notin Dirs
  /\ BasePart(target) \notin {<<>>, <<46>>, <<46, 46>>}
  /\ (DirPart(target) = <<>> \/ DirPart(target) \in Dirs)
  /\ \A j \in 1..Len(target) : target[j] # 0
Renamed(f, target) ==
  IF f = target THEN fs
  ELSE [p \in (DOMAIN fs \ {f}) \cup {target} |-> IF p = target THEN fs[f] ELSE fs[p]]

RunName ==
  /\ Running /\ pend # <<>>
  /\ LET f  == pend[1]
         ms == MatchesOn(C, C.cmds[k], f)
         wants == ms # <<>> /\ ms[1].hasr /\ ms[1].repl # <<>>
         ok == wants /\ CanRename(f, ms[1].repl)
     IN /\ acc' = acc \o ms
        /\ fs' = IF ok THEN Renamed(f, ms[1].repl) ELSE fs
        /\ args' = IF ok /\ "StaleArgs" \notin Dev
                   THEN [j \in 1..Len(args) |-> IF args[j] = f THEN ms[1].repl ELSE args[j]]
                   ELSE args
  /\ pend' = Tail(pend)
  /\ UNCHANGED <<ci, k, a, crashed>>

Next == ExpandArg \/ NextCommand \/ RunName
Spec == Init /\ [][Next]_nvars

(* ------------------------------------------------------------- invariants *)
(* RunFiles returns normally: no argument is ever found missing             *)
NeverCrashes == ~crashed
ArgsExist == \A j \in 1..Len(args) : args[j] \in Dirs \/ args[j] \in DOMAIN fs

(* no content is read, written or invented: the contents are those of the   *)
(* start, at most moved (a rename onto an existing file drops that file)     *)
ContentsOnlyMove ==
  LET f0 == FS0(C) IN
  /\ \A p \in DOMAIN fs : \E q \in DOMAIN f0 : fs[p] = f0[q]
  /\ Cardinality(DOMAIN fs) <= Cardinality(DOMAIN f0)
  /\ (\A j \in 1..Len(C.cmds) : C.cmds[j].kind = "find") => fs = f0

Emit ==
  (~Running) =>
    PrintT(ToJson([id |-> C.id, crashed |-> crashed,
                   fs |-> [j \in 1..Cardinality(DOMAIN fs) |->
                             LET x == SetToSeq(DOMAIN fs)[j] IN [path |-> x, bytes |-> fs[x]]],
                   ms |-> acc]))
=============================================================================
