----------------------------- MODULE ScanProof -----------------------------
(* The counter arithmetic of the scan loop (libvore/engine/search.go         *)
(* findMatches) for UNBOUNDED numbers of matches and amounts, by proof.      *)
(* The matches of `find all B` are numbered 1..M in the order the scan finds *)
(* them; the queue of kept matches is always a contiguous range lo..hi of    *)
(* those numbers (Push appends i+1, Limit(last) drops from the front), so    *)
(* the queue is represented by its two ends.  Theorem: when the loop stops,  *)
(* the kept range is exactly the window the amount clause denotes            *)
(* (C04: top/take n = A[0:n], skip s = A[s:], skip s take t = A[s:s+t],      *)
(* last n = the final n), with the numbers of `all`.                         *)
EXTENDS Integers, TLAPS

CONSTANTS M,        \* number of matches the scan would find with `all`
          All, Skip, Take, Last     \* the four fields parse_amount produces
ASSUME Consts == /\ M \in Nat /\ Skip \in Nat /\ Take \in Nat /\ Last \in Nat /\ All \in BOOLEAN
                 /\ (Last # 0 => (All /\ Skip = 0))            \* `last n` comes alone

VARIABLES i,        \* matchNumber: matches found (and counted) so far
          lo, hi,   \* the kept matches are numbers lo..hi (empty when hi < lo)
          done
vars == <<i, lo, hi, done>>

Guard == All \/ i < Skip + Take

Init == i = 0 /\ lo = 1 /\ hi = 0 /\ done = FALSE

(* the scan finds the next non-empty match                                   *)
Found ==
  /\ ~done /\ Guard /\ i < M
  /\ i' = i + 1
  /\ IF i >= Skip
     THEN /\ hi' = i + 1
          /\ lo' = IF hi < lo THEN (i + 1)                           \* first kept match
                   ELSE IF Last # 0 /\ (i + 1) - lo + 1 > Last THEN lo + 1   \* Limit(last) drops the oldest
                   ELSE lo
     ELSE UNCHANGED <<lo, hi>>
  /\ UNCHANGED done

(* the loop ends: window exhausted, or no further match in the text          *)
Stop ==
  /\ ~done /\ (~Guard \/ i = M)
  /\ done' = TRUE /\ UNCHANGED <<i, lo, hi>>

Next == Found \/ Stop
Spec == Init /\ [][Next]_vars

Max2(a, b) == IF a > b THEN a ELSE b
Min2(a, b) == IF a < b THEN a ELSE b

(* the window an amount clause denotes, as a range of match numbers          *)
WinLo == IF Last # 0 THEN Max2(1, M - Last + 1) ELSE Skip + 1
WinHi == IF All THEN M ELSE Min2(M, Skip + Take)

Inv ==
  /\ i \in Nat /\ lo \in Nat /\ hi \in Nat /\ done \in BOOLEAN
  /\ i <= M
  /\ (~All => i <= Skip + Take)
  /\ IF i <= Skip THEN hi < lo
     ELSE /\ hi = i
          /\ lo = (IF Last # 0 THEN Max2(1, i - Last + 1) ELSE Skip + 1)
  /\ (done => (~Guard \/ i = M))

(* C04 on the counters: the kept range is the window                         *)
WindowOf == done => IF WinHi < WinLo THEN hi < lo ELSE (lo = WinLo /\ hi = WinHi)

LEMMA InitInv == Init => Inv
  BY Consts DEF Init, Inv, Max2

LEMMA FoundInv == ASSUME Inv, Found PROVE Inv'
  BY Consts DEF Inv, Found, Guard, Max2

LEMMA StopInv == ASSUME Inv, Stop PROVE Inv'
  BY Consts DEF Inv, Stop, Guard, Max2

LEMMA InvWindow == Inv => WindowOf
  BY Consts DEF Inv, WindowOf, WinLo, WinHi, Guard, Max2, Min2

THEOREM Safety == Spec => [](Inv /\ WindowOf)
  <1>1. Init => Inv BY InitInv
  <1>2. Inv /\ [Next]_vars => Inv'
    <2> SUFFICES ASSUME Inv, [Next]_vars PROVE Inv' OBVIOUS
    <2>1. CASE Found BY <2>1, FoundInv
    <2>2. CASE Stop BY <2>2, StopInv
    <2>3. CASE UNCHANGED vars BY <2>3 DEF vars, Inv, Guard
    <2> QED BY <2>1, <2>2, <2>3 DEF Next
  <1>3. Inv => WindowOf BY InvWindow
  <1> QED BY <1>1, <1>2, <1>3, PTL DEF Spec
=============================================================================
