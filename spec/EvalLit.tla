------------------------------- MODULE EvalLit -------------------------------
(* Evaluator for cases whose source text is given literally (C16): next to  *)
(* the usual expectation, the lexer automaton is asked what the literal in  *)
(* the source denotes; it must be the literal of the case's tree.           *)
EXTENDS EvalCases, Lexer

LitOK(c) ==
  ~Has(c, "litq") \/ (LET d == Denote(c.litq, c.litbody) IN d.ok /\ d.s = c.cmds[1].body[1].s)

EmitLit == PrintT(ToJson([id |-> Cases[i].id, r |-> CaseResult(Cases[i]).r, litok |-> LitOK(Cases[i])]))
=============================================================================
