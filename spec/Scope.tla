------------------------------- MODULE Scope -------------------------------
(* The quantifiers of the properties: program sets, alphabets, input sets,  *)
(* amount clauses -- per property and tier.  Every set here is enumerated   *)
(* exhaustively by TLC (ScopeGen.tla) and every element is forced through   *)
(* the implementation.                                                      *)
EXTENDS Semantics, SequencesExt

ba == 97   bb == 98   bc == 99   bA == 65   d1 == 49   sp == 32   nl == 10   us == 95

La == Lit(<<ba>>)   Lb == Lit(<<bb>>)   Lab == Lit(<<ba, bb>>)   Lc == Lit(<<bc>>)

(* ---------------------------------------------------------------- leaves *)
LitLeaves == {La, Lb, Lab, NotLit(<<ba>>), CiLit(<<bA>>), CiLit(<<ba, bb>>)}
ClsLeaves == {Cls(c) : c \in ClassNames} \cup {NotCls(c) : c \in ClassNames}
AncLeaves == {Anc(c) : c \in AnchorNames} \cup {NotAnc(c) : c \in AnchorNames}
InLeaves  == { In(<<La, Lb>>), In(<<Rng(<<ba>>, <<bb>>)>>), In(<<Cls("digit"), La>>),
               In(<<CiLit(<<bA>>)>>), In(<<Lab, La>>), In(<<Rng(<<ba, ba>>, <<ba, bb>>)>>),
               \* three and more items that can match at the same position with different outcomes: tried in the order written
               In(<<Lc, La, Lab>>), In(<<Lc, Lab, La>>), In(<<Lb, Lit(<<ba, ba>>), La, Lab>>), In(<<Lit(<<ba, bb, ba>>), Lab, La, Lb>>),
               NotIn(<<La>>), NotIn(<<Rng(<<ba>>, <<bb>>), Cls("digit")>>),
               NotIn(<<Cls("whitespace")>>), NotIn(<<La, Lb>>) }
(* literal-kind leaves may stand as an operand of `or` and as a capture body *)
LitKindLeaves == LitLeaves \cup ClsLeaves \cup AncLeaves
Leaves == LitKindLeaves \cup InLeaves

(* a small core used where constructs are composed                          *)
Core  == {La, Lb, Lab, Cls("any"), NotLit(<<ba>>), Anc("linestart"), Anc("wordend"), NotAnc("lineend")}
Core4 == {La, Lab, Cls("any"), Anc("lineend")}

(* literal-kind wrapper: anything can be grouped                            *)
IsLitKind(e) == e.k \in {"lit", "cls", "anc", "whole", "seq", "ref"}
AsLit(e) == IF IsLitKind(e) THEN e ELSE Grp(<<e>>)

(* ----------------------------------------------------------- quantifiers *)
QuantAll  == { <<0, 1>>, <<0, -1>>, <<1, -1>>, <<2, -1>>, <<0, 2>>, <<1, 2>>, <<2, 3>> }
LoopsAll(X)  == {Loop(q[1], q[2], f, x) : q \in QuantAll, f \in BOOLEAN, x \in X}
                  \cup {Loop(2, 2, FALSE, x) : x \in X} \cup {Loop(1, 1, FALSE, x) : x \in X}
QuantCore == { <<0, 1>>, <<0, -1>>, <<1, -1>>, <<0, 2>>, <<1, 2>> }
LoopsCore(X) == {Loop(q[1], q[2], f, x) : q \in QuantCore, f \in BOOLEAN, x \in X}
                  \cup {Loop(2, 2, FALSE, x) : x \in X}
(* a loop body must not itself be a bare loop (the trailing `fewest` would  *)
(* attach to the inner one): nested loops are grouped                       *)
LoopBody(e) == IF e.k = "loop" THEN Grp(<<e>>) ELSE e

(* ------------------------------------------------------------- alphabets *)
RECURSIVE Mentions(_), MentionsSeq(_)
MentionsSeq(es) == UNION {Mentions(es[i]) : i \in 1..Len(es)}
Mentions(e) ==
  CASE e.k = "lit"  -> {"lit"} \cup (IF e.ci THEN {"case"} ELSE {})
    [] e.k = "cls"  -> {e.c}
    [] e.k = "anc"  -> {e.c}
    [] e.k = "whole" -> {"whole" \o e.c}
    [] e.k = "rng"  -> {"lit"}
    [] e.k = "seq"  -> MentionsSeq(e.es)
    [] e.k = "or"   -> Mentions(e.l) \cup Mentions(e.r)
    [] e.k = "in"   -> MentionsSeq(e.items)
    [] e.k = "loop" -> Mentions(e.body)
    [] e.k = "cap"  -> Mentions(e.body)
    [] e.k = "sub"  -> MentionsSeq(e.es)
    [] e.k = "ref"  -> {"ref"}

SigmaFor(M) ==
  {ba, bb}
    \cup (IF "any" \in M THEN {nl} ELSE {})                       \* matches that span lines
    \cup (IF M \cap {"digit", "letter"} # {} THEN {d1} ELSE {})
    \cup (IF M \cap {"upper", "lower", "case", "ref"} # {} THEN {bA} ELSE {})     \* a back-reference is exact, also in letter case
    \cup (IF M \cap {"whitespace", "wordstart", "wordend", "wholeword"} # {} THEN {sp} ELSE {})
    \cup (IF M \cap {"linestart", "lineend", "whitespace", "wholeline", "filestart", "fileend"} # {} THEN {nl} ELSE {})   \* file anchors are not line anchors

LenFor(S, tier) ==
  IF tier = "quick"
  THEN (IF Cardinality(S) <= 2 THEN 5 ELSE IF Cardinality(S) = 3 THEN 4 ELSE 3)
  ELSE (IF Cardinality(S) <= 2 THEN 7 ELSE IF Cardinality(S) = 3 THEN 5 ELSE 4)

FindAllCmd(body) == [kind |-> "find", amt |-> [k |-> "all"], body |-> body]
ReplAllCmd(body, with) == [kind |-> "replace", amt |-> [k |-> "all"], body |-> body, with |-> with]

(* a case: one program with "all strings over sigma of length lo..hi"       *)
MkCase(id, defs, cmds, S, hi) ==
  [id |-> id, defs |-> defs, cmds |-> cmds, sigma |-> SetToSeq(S), lo |-> 1, hi |-> hi]

BodyCase(id, body, tier) ==
  LET S == SigmaFor(MentionsSeq(body))
  IN MkCase(id, <<>>, <<FindAllCmd(body)>>, S, LenFor(S, tier))

(* ===================================================================== C01 *)
(* every construct under every other, to nesting depth 2 (quick)            *)
C01_Single  == {<<x>> : x \in Leaves}
C01_Loops   == {<<l>> : l \in LoopsAll(Leaves)}
C01_Binary  == {<<x, y>> : x \in Core, y \in Core} \cup {<<Or(x, y)>> : x \in Core, y \in Core}
                 \cup {<<Or(x, Or(y, La))>> : x \in Core4, y \in Core4}
C01_LoopBin == {<<Loop(q[1], q[2], f, Grp(<<x, y>>))>> : q \in QuantCore, f \in BOOLEAN, x \in Core4, y \in Core4}
                 \cup {<<Loop(q[1], q[2], f, Or(x, y))>> : q \in QuantCore, f \in BOOLEAN, x \in Core4, y \in Core4}
C01_BinLoop == LET LL == LoopsCore(Core4) IN
                 {<<x, l>> : x \in Core4, l \in LL} \cup {<<l, x>> : x \in Core4, l \in LL}
                 \cup {<<Or(x, Grp(<<l>>))>> : x \in Core4, l \in LL}
                 \cup {<<Or(Grp(<<l>>), x)>> : x \in Core4, l \in LL}
C01_Nested  == {<<Loop(q[1], q[2], f, Grp(<<l>>))>> : q \in QuantCore, f \in BOOLEAN, l \in LoopsCore({La, Cls("any"), Anc("lineend")})}
C01_Context == {<<Lb, l>> : l \in LoopsAll(Core)} \cup {<<l, La>> : l \in LoopsAll(Core)}
                 \cup {<<l, Lab>> : l \in LoopsCore(Core4)}
(* inline subroutines, calls, guarded recursion                             *)
C01_Subs == { <<Sub("s", <<x>>), Ref("s")>> : x \in Core4 }
         \cup { <<Sub("s", <<x, y>>), Lb, Ref("s")>> : x \in Core4, y \in Core4 }
         \cup { <<Sub("s", <<La, Loop(0, 1, f, Ref("s")), Lb>>)>> : f \in BOOLEAN }
         \cup { <<Sub("s", <<Or(Lab, Grp(<<La, Ref("s"), Lb>>))>>)>>,
                <<Sub("s", <<Or(Grp(<<La, Ref("s")>>), Lb)>>), Ref("s")>>,
                <<Loop(0, -1, FALSE, Sub("s", <<La>>)), Lb, Ref("s")>>,
                <<Loop(0, 1, FALSE, Sub("s", <<La>>)), Lb, Ref("s")>>,
                <<Sub("s", <<La, Sub("t", <<Lb>>)>>), Ref("t"), Ref("s")>>,
                <<Sub("s", <<Loop(1, -1, FALSE, La)>>), Loop(0, -1, TRUE, Ref("s")), Lb>> }
(* captures and back-references (spans; the bindings are C02's business)    *)
C01_Caps == { <<Cap("x", x), Ref("x")>> : x \in {La, Cls("any"), Grp(<<Loop(1, -1, FALSE, Cls("any"))>>), Grp(<<Loop(0, 1, FALSE, La)>>)} }
         \cup { <<Cap("x", Grp(<<Loop(q[1], q[2], f, Cls("any"))>>)), Lb, Ref("x")>> : q \in QuantCore, f \in BOOLEAN }
         \cup { <<Or(Grp(<<Cap("x", La), Lb>>), Grp(<<La, Lc>>))>>,
                <<Loop(1, -1, FALSE, Cap("x", Grp(<<In(<<La, Lb>>)>>))), Ref("x")>> }

(* a loop whose body has a choice point, followed by something that forces  *)
(* the search back into an earlier iteration's alternative                  *)
C01_LoopBinCtx == {<<Loop(q[1], q[2], f, Or(x, y)), z>> : q \in QuantCore \cup {<<2, 3>>}, f \in BOOLEAN, x \in Core4, y \in Core4, z \in {La, Lb, Lab}}
                    \cup {<<Loop(q[1], q[2], f, Grp(<<x, Loop(0, 1, FALSE, y)>>)), z>> : q \in QuantCore, f \in BOOLEAN, x \in {La, Cls("any")}, y \in {La, Lb}, z \in {La, Lb}}
(* consuming constructs evaluated exactly at (or just before) the end       *)
C01_AtEnd == {<<x, n>> : x \in {La, Cls("any"), Lab}, n \in InLeaves \cup {NotLit(<<ba>>), NotCls("digit"), NotCls("whitespace"), Cls("any"), CiLit(<<bA>>)}}
               \cup {<<x, n, Anc("fileend")>> : x \in {La, Cls("any")}, n \in InLeaves}

(* thorough tier: nesting depth 3, thinned to one representative per         *)
(* quantifier family at the outermost level                                 *)
QuantRep == { <<0, 1>>, <<0, -1>>, <<1, -1>>, <<1, 2>> }
Tiny == {La, Cls("any"), Lab}
C01_Deep ==
  LET L1 == {Loop(q[1], q[2], f, x) : q \in QuantRep, f \in BOOLEAN, x \in Tiny}
      G2 == {Grp(<<x, l>>) : x \in Tiny, l \in L1} \cup {Grp(<<l, x>>) : x \in Tiny, l \in L1}
              \cup {Grp(<<Or(x, Grp(<<l>>))>>) : x \in Tiny, l \in L1} \cup {Grp(<<Or(Grp(<<l>>), x)>>) : x \in Tiny, l \in L1}
  IN {<<Loop(q[1], q[2], f, g)>> : q \in QuantRep, f \in BOOLEAN, g \in G2}
     \cup {<<Loop(q[1], q[2], f, g), z>> : q \in {<<0, -1>>, <<1, 2>>}, f \in BOOLEAN, g \in G2, z \in {La, Lb}}
     \cup {<<Or(g, Grp(<<h, La>>))>> : g \in G2, h \in {Grp(<<l>>) : l \in L1}}
     \cup {<<Sub("s", <<x, Loop(q[1], q[2], f, Grp(<<Or(Grp(<<Ref("s")>>), y)>>))>>), z>> : x \in Tiny, y \in Tiny, z \in {La, Lb}, q \in {<<0, 1>>, <<0, 2>>}, f \in BOOLEAN}

C01_Bodies(tier) ==
  C01_Single \cup C01_Loops \cup C01_Binary \cup C01_LoopBin \cup C01_BinLoop
    \cup C01_Nested \cup C01_Context \cup C01_Subs \cup C01_Caps \cup C01_LoopBinCtx \cup C01_AtEnd
    \cup (IF tier = "thorough" THEN C01_Deep ELSE {})

(* global patterns with and without predicate                               *)
PredLenAtLeast(n) == <<[k |-> "ret", e |-> [k |-> "bin", op |-> ">=", l |-> [k |-> "var", name |-> "matchLength"], r |-> [k |-> "num", v |-> n]]]>>
PredIsAB == <<[k |-> "ret", e |-> [k |-> "bin", op |-> "==", l |-> [k |-> "var", name |-> "match"], r |-> [k |-> "str", v |-> <<ba, bb>>]]]>>
PredNot(p) == <<[k |-> "ret", e |-> [k |-> "un", op |-> "not", e |-> p[1].e]]>>

GDef(name, es, pred) == [name |-> name, es |-> es, pred |-> pred]

C01_GlobalCases ==
  LET pats  == { <<La>>, <<Lab>>, <<Or(La, Lb)>>, <<Loop(1, -1, FALSE, In(<<La, Lb>>))>>, <<Loop(0, -1, TRUE, Cls("any")), Lb>>,
                 <<Loop(1, 2, FALSE, La)>>, <<NotIn(<<La>>)>>,
                 <<Sub("t", <<La>>), Loop(0, 1, FALSE, Ref("t"))>>,
                 <<Sub("t", <<La, Loop(0, 1, FALSE, Ref("t")), Lb>>)>> }
      preds == { <<>>, PredLenAtLeast(2), PredIsAB, PredNot(PredIsAB) }
      uses  == { <<Ref("p")>>, <<Ref("p"), Ref("p")>>, <<Lb, Ref("p")>>, <<Ref("p"), La>>,
                 <<Loop(1, -1, FALSE, Ref("p"))>>, <<Or(Ref("p"), Lb)>>, <<Loop(0, 1, TRUE, Ref("p")), Lb>> }
      inner == { <<La>>, <<Or(La, Lb)>>, <<Loop(1, -1, FALSE, La)>>, <<NotIn(<<Lb>>)>> }
      outer == { <<Ref("q"), Lb, Ref("q")>>, <<Ref("q"), Ref("q")>>, <<Loop(1, 2, FALSE, Ref("q")), Lc>>, <<Or(Ref("q"), Lc)>> }
  IN { [defs |-> <<GDef("p", es, pr)>>, body |-> u] : es \in pats, pr \in preds, u \in uses }
     \cup { [defs |-> <<GDef("q", i, <<>>), GDef("p", o, pr)>>, body |-> u] :
             i \in inner, o \in outer, pr \in {<<>>, PredLenAtLeast(2)}, u \in {<<Ref("p")>>, <<Ref("p"), Ref("p")>>, <<La, Ref("p")>>, <<Ref("q"), Ref("p")>>} }


(* -------------------------------------------------- class and anchor tables *)
(* every class, anchor, range and caseless literal against the bytes at the  *)
(* edges of its definition: all texts of length <= 2 over BoundaryBytes      *)
BoundaryBytes == {47, 48, 57, 58, 64, 65, 90, 91, 95, 96, 97, 122, 123, 32, 9, 10, 13, 11, 12}
C01_ClassBodies ==
  {<<x>> : x \in ClsLeaves} \cup {<<x, Cls("any")>> : x \in {Anc("wordstart"), Anc("wordend"), NotAnc("wordstart"), NotAnc("wordend")}}
    \cup {<<Cls("any"), x>> : x \in {Anc("wordstart"), Anc("wordend"), Anc("lineend"), Anc("linestart")}}
    \cup { <<In(<<Rng(<<48>>, <<57>>)>>)>>, <<In(<<Rng(<<65>>, <<90>>), Lit(<<95>>)>>)>>, <<NotIn(<<Rng(<<97>>, <<122>>), Cls("digit")>>)>>,
           <<CiLit(<<bA>>)>>, <<CiLit(<<122>>), CiLit(<<90>>)>>, <<CiLit(<<64>>)>>, <<NotLit(<<10>>)>>, <<Cls("whitespace"), NotCls("whitespace")>>,
           \* ranges whose bounds have different lengths: every length from the longer bound's down to the shorter's is tried
           <<In(<<Rng(<<97>>, <<122, 122>>)>>)>>, <<In(<<Rng(<<48>>, <<57, 57>>)>>)>>, <<Cls("any"), In(<<Rng(<<97>>, <<122, 122>>)>>)>>,
           <<NotIn(<<Rng(<<97>>, <<122, 122>>)>>)>> }

(* ===================================================================== C02 *)
C02_Bodies ==
  LET X == {La, Cls("any"), Lab, Grp(<<Loop(0, 1, FALSE, La)>>), Grp(<<Loop(1, -1, FALSE, In(<<La, Lb>>))>>)}
      T == {Lb, Lc, Lab}
  IN
  \* captures under `or`: left arm, right arm, both, nested
     { <<Or(Grp(<<Cap("x", x), y>>), Grp(<<x2, y2>>))>> : x \in X, y \in T, x2 \in {La, Cls("any")}, y2 \in T }
  \cup { <<Or(Grp(<<x2, y2>>), Grp(<<Cap("x", x), y>>))>> : x \in X, y \in T, x2 \in {La, Lab}, y2 \in T }
  \cup { <<Or(Grp(<<Cap("x", x), y>>), Grp(<<Cap("y", x2), y2>>))>> : x \in X, y \in T, x2 \in {La, Cls("any")}, y2 \in T }
  \cup { <<Or(Grp(<<Cap("x", x), Or(Grp(<<Cap("y", La), Lb>>), Lc)>>), Grp(<<Cls("any"), Cls("any")>>))>> : x \in X }
  \* captures under loops: rebinding per iteration, abandoned iterations
  \cup { <<Loop(q[1], q[2], f, Cap("x", x)), y>> : q \in QuantAll, f \in BOOLEAN, x \in X, y \in T }
  \cup { <<Loop(q[1], q[2], f, Grp(<<Cap("x", x), Loop(0, 1, FALSE, Cap("y", Lb))>>)), y>> : q \in QuantCore, f \in BOOLEAN, x \in {La, Cls("any")}, y \in T }
  \* capture then back-reference
  \cup { <<Cap("x", x), y, Ref("x")>> : x \in X, y \in {Lb, Grp(<<>>), Cls("any")} }
  \cup { <<Cap("x", Grp(<<Loop(q[1], q[2], f, Cls("any"))>>)), Ref("x")>> : q \in QuantAll, f \in BOOLEAN }
  \cup { <<Loop(1, -1, FALSE, Grp(<<Cap("x", Cls("any")), Ref("x")>>))>>,
         <<Cap("x", Cls("any")), Loop(1, -1, FALSE, Ref("x"))>>,
         <<Loop(0, 1, FALSE, Cap("x", La)), Lb, Ref("x")>>,
         <<Or(Grp(<<Cap("x", La)>>), Grp(<<Lb>>)), Ref("x")>>,
         <<Cap("x", Grp(<<Cap("y", Cls("any")), Cls("any")>>)), Ref("y"), Ref("x")>> }
  \* captures inside subroutines and recursive calls
  \cup { <<Sub("s", <<Cap("x", x)>>), y, Ref("s")>> : x \in X, y \in T }
  \cup { <<Sub("s", <<Cap("x", Cls("any")), Loop(0, 1, f, Ref("s"))>>), Lb>> : f \in BOOLEAN }
  \cup { <<Sub("s", <<La, Loop(0, 1, FALSE, Grp(<<Cap("x", Lb), Ref("s")>>))>>), Lc>>,
         <<Sub("s", <<Or(Grp(<<Cap("x", La), Lb>>), Grp(<<Cap("y", La), Lc>>))>>), Ref("s")>>,
         <<Sub("s", <<Cap("x", Grp(<<In(<<La, Lb>>)>>))>>), Ref("x"), Ref("s"), Ref("x")>> }


(* ===================================================================== C03 *)
(* named loops: same spans as the unnamed loop (minimum 0, or a body that   *)
(* always consumes); their nested variable maps are checked for             *)
(* well-formedness (substrings of the value) and, in C17, for faithful      *)
(* rendering                                                                *)
NLoop(mn, mx, few, body, name) == [k |-> "loop", min |-> mn, max |-> mx, few |-> few, body |-> body, name |-> name]
C03_NamedBodies ==
  LET B == { La, Cap("x", La), Grp(<<Cap("x", Grp(<<In(<<La, Lb>>)>>)), Loop(0, 1, FALSE, Cap("y", Lb))>>),
             Or(Grp(<<Cap("x", La)>>), Grp(<<Cap("y", Lb), Lb>>)), Cls("any") }
      Qn == { <<0, 1>>, <<0, -1>>, <<1, -1>>, <<0, 2>>, <<1, 2>> }
  IN {<<NLoop(q[1], q[2], f, b, "lp")>> : q \in Qn, f \in BOOLEAN, b \in B}
     \cup {<<NLoop(q[1], q[2], f, b, "lp"), Lb>> : q \in Qn, f \in BOOLEAN, b \in B}
     \cup {<<La, NLoop(q[1], q[2], FALSE, Grp(<<NLoop(0, -1, FALSE, Cap("x", Lb), "inner"), La>>), "outer")>> : q \in Qn}
     \cup {<<NLoop(1, -1, FALSE, Grp(<<Cap("k", Grp(<<Loop(1, -1, FALSE, NotLit(<<sp>>))>>)), Loop(0, 1, FALSE, Lit(<<sp>>))>>), "words")>>}

(* whole file / line / word at the positions where a file, line, word starts *)
C03_WholeBodies ==
  { <<Whole(c)>> : c \in {"file", "line", "word"} } \cup { <<[k |-> "whole", c |-> c, neg |-> TRUE], Cls("any")>> : c \in {"file", "line", "word"} }
    \cup { <<Whole("word"), Loop(0, 1, FALSE, Lit(<<sp>>)), Whole("word")>>, <<Cap("w", Whole("word"))>>, <<Whole("line"), Lit(<<nl>>), Whole("line")>>,
           <<Anc("linestart"), Whole("word"), Anc("wordend")>>, <<Loop(1, -1, FALSE, Grp(<<Whole("word"), Lit(<<sp>>)>>))>>,
           <<Lit(<<sp>>), Whole("word")>>, <<Anc("filestart"), Whole("file"), Anc("fileend")>>,
           \* a consuming whole-unit directly followed by a literal (the literal's first byte is not the match's first byte)
           <<Whole("word"), Lit(<<sp>>)>>, <<Whole("line"), Lit(<<nl>>)>>, <<Anc("linestart"), Whole("line"), Lit(<<nl>>), La>>,
           <<Cap("w", Whole("word")), Lit(<<sp>>), Lb>>, <<Whole("word"), La>>, <<Anc("wordstart"), Whole("word"), Lit(<<nl>>)>> }

(* ===================================================================== C04 *)
C04_BodiesQ == { <<Lit(<<ba, ba>>)>>, <<Loop(1, -1, FALSE, La)>>, <<La, Loop(0, 1, FALSE, La)>>,
                 <<Or(Lab, La)>>, <<La>>, <<Cls("any")>>, <<Loop(1, 2, TRUE, Cls("any"))>>,
                 <<La, Anc("lineend")>>, <<Loop(1, -1, FALSE, NotLit(<<bb>>))>>, <<Cap("x", Cls("any")), Loop(0, 1, FALSE, Ref("x"))>>,
                 \* bodies that can succeed without consuming: empty successes are not matches
                 <<Loop(0, 1, FALSE, La)>>, <<Loop(0, -1, FALSE, Lb)>>, <<Or(La, Grp(<<>>))>>, <<Loop(0, 1, TRUE, La), Loop(0, 1, FALSE, Lb)>> }
AmountsUpTo(n) ==
  {[k |-> "all"]} \cup {[k |-> "top", n |-> i] : i \in 0..n} \cup {[k |-> "take", n |-> i] : i \in 0..n}
    \cup {[k |-> "skip", s |-> i] : i \in 0..n}
    \cup {[k |-> "skiptake", s |-> i, t |-> j] : i \in 0..n, j \in 0..n}
    \cup {[k |-> "last", n |-> i] : i \in 1..n}

(* ===================================================================== C05 *)
PStr(s)  == [k |-> "str", v |-> s]
PNum(n)  == [k |-> "num", v |-> n]
PVar(x)  == [k |-> "var", name |-> x]
PBin(op, l, r) == [k |-> "bin", op |-> op, l |-> l, r |-> r]
PUn(op, e) == [k |-> "un", op |-> op, e |-> e]
SRet(e)  == [k |-> "ret", e |-> e]
SSet(x, e) == [k |-> "set", name |-> x, e |-> e]
SIf(c, th, el) == [k |-> "if", c |-> c, th |-> th, el |-> el]

WStr(s)  == [k |-> "str", s |-> s]
WName(n) == [k |-> "name", name |-> n]

(* predicates with local names: every evaluation starts from a fresh         *)
(* environment (a name that was never assigned reads as the empty string),   *)
(* whatever earlier candidates, iterations or start positions did            *)
PBoolT == [k |-> "bool", v |-> TRUE]
PBoolF == [k |-> "bool", v |-> FALSE]
C01_FreshPreds ==
  { <<SIf(PBin("==", PVar("seen"), PStr(<<>>)), <<SSet("seen", PStr(<<ba>>)), SRet(PBoolT)>>, <<>>), SRet(PBoolF)>>,
    <<SIf(PBin("==", PVar("match"), PStr(<<ba>>)), <<SSet("flag", PStr(<<ba>>))>>, <<>>), SRet(PBin("==", PVar("flag"), PStr(<<>>)))>>,
    <<SSet("acc", PBin("+", PVar("acc"), PVar("match"))), SRet(PBin("==", PVar("acc"), PVar("match")))>> }
C01_FreshPredCases ==
  { [defs |-> <<GDef("p", es, pr)>>, body |-> u] :
      es \in {<<Cls("any")>>, <<Loop(1, 2, FALSE, In(<<La, Lb>>))>>}, pr \in C01_FreshPreds,
      u \in {<<Ref("p")>>, <<Ref("p"), Ref("p")>>, <<Loop(1, -1, FALSE, Ref("p"))>>, <<Loop(0, 1, TRUE, Ref("p")), Lb>>} }

C05_Trans ==
  << [name |-> "tdup", stmts |-> <<SRet(PBin("+", PVar("match"), PVar("match")))>>],
     [name |-> "tcap", stmts |-> <<SRet(PBin("+", PVar("x"), PStr(<<33>>)))>>],
     [name |-> "tnum", stmts |-> <<SRet(PVar("matchNumber"))>>],
     [name |-> "tinc", stmts |-> <<SIf(PBin("<", PVar("matchNumber"), PNum(2)), <<SRet(PBin("+", PVar("matchNumber"), PNum(1)))>>, <<>>),
                                   SRet(PBin("*", PVar("matchNumber"), PVar("matchLength")))>>],
     [name |-> "tlen", stmts |-> <<SRet(PBin("*", PVar("matchLength"), PNum(2)))>>],
     [name |-> "tif",  stmts |-> <<SIf(PBin("==", PVar("match"), PStr(<<ba>>)), <<SRet(PStr(<<bA>>))>>, <<>>), SRet(PBin("+", PStr(<<60>>), PVar("y")))>>],
     [name |-> "tset", stmts |-> <<SSet("v", PUn("tail", PVar("match"))), SRet(PBin("+", PVar("v"), PUn("head", PVar("match"))))>>],
     \* every transform item starts from the match's own environment: what one item assigns (the match text, a scratch name,
     \* a captured name) is not seen by the next one
     [name |-> "twm", stmts |-> <<SSet("match", PBin("+", PVar("match"), PStr(<<33>>))), SRet(PVar("match"))>>],
     [name |-> "tsv", stmts |-> <<SSet("v", PStr(<<81>>)), SSet("x", PStr(<<90>>)), SRet(PVar("x"))>>],
     [name |-> "trv", stmts |-> <<SRet(PBin("+", PVar("v"), PVar("match")))>>],
     \* the built-ins are visible inside a transform whether or not they are also named as plain items
     [name |-> "tbi", stmts |-> <<SRet(PBin("+", PBin("+", PVar("startOffset"), PStr(<<45>>)), PBin("+", PVar("endOffset"), PBin("+", PStr(<<47>>), PVar("totalMatches")))))>>],
     [name |-> "tbv", stmts |-> <<SRet(PBin("+", PVar("value"), PBin("+", PVar("lineNumber"), PBin("+", PStr(<<58>>), PVar("columnNumber")))))>>],
     \* a return inside a loop ends the transform, not just the loop
     [name |-> "tlr", stmts |-> <<[k |-> "loop", body |-> <<SIf(PBin("<", PVar("matchLength"), PNum(2)), <<SRet(PStr(<<83>>))>>, <<>>), [k |-> "brk"]>>],
                                  SRet(PStr(<<76>>))>>],
     \* a loop left by break inside another loop: only the inner loop ends
     [name |-> "tnl", stmts |-> <<SSet("s", PStr(<<>>)), SSet("i", PNum(0)),
                                  [k |-> "loop", body |-> <<SSet("i", PBin("+", PVar("i"), PNum(1))), SIf(PBin("<", PNum(2), PVar("i")), <<[k |-> "brk"]>>, <<>>),
                                                            [k |-> "loop", body |-> <<SSet("s", PBin("+", PVar("s"), PVar("match"))), [k |-> "brk"]>>],
                                                            SSet("s", PBin("+", PVar("s"), PStr(<<124>>)))>>],
                                  SRet(PVar("s"))>>] >>

C05_Items ==
  { WStr(<<60>>), WStr(<<>>), WStr(<<ba, bb>>), WName("x"), WName("y"), WName("nope"),
    WName("value"), WName("matchNumber"), WName("startOffset"), WName("endOffset"),
    WName("lineNumber"), WName("columnNumber"), WName("totalMatches") }
    \cup { WName(C05_Trans[j].name) : j \in 1..Len(C05_Trans) }

C05_Bodies ==
  { <<Cap("x", Cls("any")), Loop(0, 1, FALSE, Cap("y", Lb))>>,
    \* a named loop: its name holds the per-iteration maps, not a text - named as a `with` item it writes nothing
    <<NLoop(1, -1, FALSE, Cap("x", La), "y"), Loop(0, 1, FALSE, Lb)>>,
    <<Cap("x", Grp(<<Loop(1, -1, FALSE, La)>>))>>,
    <<Or(Grp(<<Cap("x", La)>>), Grp(<<Cap("y", Lb)>>))>>,
    <<Lab>> }

C05_Withs ==
  { <<i>> : i \in C05_Items } \cup { <<i, j>> : i \in C05_Items, j \in C05_Items }
    \cup { <<WStr(<<60>>), WName("x"), WName("tcap"), WStr(<<62>>)>>,
           <<WName("tdup"), WName("nope"), WName("value"), WName("tnum")>>,
           <<WName("y"), WName("y"), WName("tif")>> }

(* ===================================================================== C06 *)
C06_Withs == { <<WStr(<<>>)>>, <<WStr(<<120>>)>>, <<WStr(<<120, 121, 122>>)>>, <<WName("value"), WName("value")>>,
               <<WName("matchNumber")>>, <<WName("nosuchname")>>,      \* the last one names nothing: the match is deleted
               <<WStr(<<195, 169>>)>>, <<WStr(<<226, 130, 172, 120>>), WName("value")>>,
               <<WName("value")>> }      \* the identity replacement: NEW still (re)creates the .vored file   \* offsets are counted in bytes, also after a multi-byte replacement
C06_Bodies == { <<La>>, <<Lab>>, <<Loop(1, -1, FALSE, La)>>, <<Cls("any")>>, <<Lit(<<bc>>)>> }

(* ===================================================================== C13 *)
(* capture-free bodies                                                      *)
C13_Bodies ==
  { <<La>>, <<Lab>>, <<Or(La, Lb)>>, <<In(<<La, Lb>>)>>, <<NotIn(<<La>>)>>, <<Loop(1, -1, FALSE, Or(La, Lb))>>,
    <<Loop(0, -1, TRUE, Cls("any")), Lb>>, <<La, Loop(0, 1, FALSE, Lb)>>, <<Loop(1, 2, FALSE, La)>>,
    <<Or(Lab, Or(La, Lb))>>, <<Loop(0, -1, FALSE, In(<<Rng(<<ba>>, <<bb>>)>>)), Lb>>, <<Anc("linestart"), Cls("any")>> }
(* a use context maps "what stands for the body" (X1, X2, X3: the first,    *)
(* second, third reference) to a command body                               *)
(* the three spellings of one (body, use) pair; the use index selects the   *)
(* same context in each                                                     *)
UsesSeq(X1, X2, X3) ==
  << <<X1>>, <<Lb, X1>>, <<X1, La>>, <<Loop(1, -1, FALSE, X1)>>, <<Or(AsLit(X1), Lb)>>, <<Loop(0, 1, TRUE, X1), Lb>>,
     <<X1, X2>>, <<X1, Lb, X2>>, <<Or(AsLit(X1), X2)>>, <<X1, Loop(0, -1, FALSE, X2)>>, <<X1, X2, X3>>,
     <<Loop(0, 1, FALSE, X1), X2, Loop(1, 2, FALSE, X3)>>,
     \* counted loops (their mandatory copies) whose body refers to the definition made outside
     <<X1, Loop(2, 2, FALSE, Grp(<<X2, Lb>>))>>, <<X1, Loop(2, -1, FALSE, X2)>>, <<X1, Loop(2, 3, TRUE, Grp(<<Lb, X2>>)), X3>> >>
NUses == 15
Written(B)  == UsesSeq(Grp(B), Grp(B), Grp(B))
InlineSub(B) == UsesSeq(Sub("s", B), Ref("s"), Ref("s"))
GlobalRef(B) == UsesSeq(Ref("s"), Ref("s"), Ref("s"))

(* ===================================================================== C09 *)
NotWhole(c) == [k |-> "whole", c |-> c, neg |-> TRUE]
NullCap == Cap("x", Grp(<<Loop(0, 1, FALSE, La)>>))
C09_Bodies ==
  { <<>>, <<Grp(<<>>)>>, <<Grp(<<>>), La>>, <<La, Grp(<<>>)>>, <<Loop(0, -1, FALSE, Grp(<<>>))>>, <<Loop(2, 2, FALSE, Grp(<<>>))>>,
    <<NullCap, Ref("x")>>, <<Lb, NullCap, Ref("x")>>, <<Cap("x", Grp(<<>>)), Ref("x"), La>>,
    <<Lb, Cap("x", Grp(<<Loop(0, -1, FALSE, La)>>)), Ref("x")>>,
    <<Loop(0, -1, FALSE, Grp(<<NullCap, Ref("x")>>))>>, <<Loop(1, -1, FALSE, Grp(<<NullCap, Ref("x"), Lb>>))>>,
    <<Sub("s", <<Loop(0, 1, FALSE, La)>>), Ref("s"), Ref("s")>>,
    \* a name that may be unbound when it is used
    <<Loop(0, 1, FALSE, Cap("x", La)), Lb, Ref("x")>>, <<Loop(0, -1, FALSE, Cap("x", La)), Ref("x")>>,
    <<Or(Grp(<<Cap("x", La)>>), Grp(<<Lb>>)), Ref("x")>>, <<Loop(0, 1, TRUE, Cap("x", Cls("any"))), Ref("x"), Ref("x")>>,
    <<Lit(<<>>)>>, <<La, Lit(<<>>)>>, <<Lit(<<>>), La>>, <<NotIn(<<Lit(<<>>)>>)>>, <<In(<<Lit(<<>>), La>>)>>, <<Cap("x", Lit(<<>>)), Ref("x")>>,
    <<NotIn(<<Lab>>)>>, <<La, NotIn(<<Lab, Lb>>)>>, <<In(<<Rng(<<ba>>, <<ba, bb>>)>>)>>, <<NotLit(<<ba, bb>>)>>, <<La, NotLit(<<ba, bb>>)>>,
    <<In(<<Rng(<<bb>>, <<ba>>)>>)>>, <<NotIn(<<Rng(<<ba>>, <<ba, bb>>)>>)>> }
  \cup { <<x>> : x \in AncLeaves } \cup { <<Cls("any"), x>> : x \in AncLeaves } \cup { <<x, Cls("any")>> : x \in AncLeaves }
  \cup { <<Loop(0, -1, FALSE, Cls("any")), x>> : x \in AncLeaves } \cup { <<x, y>> : x \in AncLeaves, y \in {Anc("fileend"), Anc("wordend"), NotAnc("linestart")} }
  \cup { <<x>> : x \in ClsLeaves } \cup { <<La, x>> : x \in ClsLeaves } \cup { <<Loop(1, -1, FALSE, x)>> : x \in ClsLeaves }
  \cup { <<Whole(c)>> : c \in {"file", "line", "word"} } \cup { <<NotWhole(c)>> : c \in {"file", "line", "word"} }
  \cup { <<La, Whole(c)>> : c \in {"file", "line", "word"} } \cup { <<Whole(c), La>> : c \in {"file", "line", "word"} }
  \cup { <<Loop(q[1], q[2], FALSE, Whole(c))>> : q \in {<<0, -1>>, <<1, -1>>, <<0, 1>>}, c \in {"line", "word"} }
  \cup { <<Cls("any"), NotWhole(c), Whole(c)>> : c \in {"line", "word"} }
  \cup { <<Cap("x", Whole("word")), Loop(0, 1, FALSE, Lit(<<sp>>)), Ref("x")>> }

(* ===================================================================== C10 *)
NullLeaves == AncLeaves \cup { Grp(<<>>), Grp(<<Loop(0, 1, FALSE, La)>>), Grp(<<Or(La, Grp(<<>>))>>), Grp(<<Or(Grp(<<>>), La)>>),
                               NullCap, Grp(<<NotIn(<<La>>)>>), NotWhole("line"), Grp(<<Loop(0, -1, TRUE, Cls("any"))>>) }
NullCore  == { Anc("lineend"), NotAnc("wordstart"), Grp(<<>>), Grp(<<Loop(0, 1, FALSE, La)>>), Grp(<<Or(La, Grp(<<>>))>>),
               NullCap, Anc("wordend"), Grp(<<Loop(0, -1, TRUE, Cls("any"))>>) }
NullTiny  == { Anc("lineend"), Grp(<<>>), Grp(<<Loop(0, 1, FALSE, La)>>), NotAnc("filestart") }
QuantNull == { <<0, 1>>, <<0, -1>>, <<1, -1>>, <<0, 2>>, <<2, -1>> }
QuantTiny == { <<0, -1>>, <<1, -1>> }
LoopsQ(Q, X) == {Loop(q[1], q[2], f, x) : q \in Q, f \in BOOLEAN, x \in X}
C10_Bodies ==
  LET D1 == LoopsQ(QuantNull, NullLeaves)
      D2 == LoopsQ(QuantNull, {Grp(<<l>>) : l \in LoopsQ(QuantNull, NullCore \ {NullCap})})
      D3 == LoopsQ(QuantTiny, {Grp(<<l>>) : l \in LoopsQ(QuantTiny, {Grp(<<m>>) : m \in LoopsQ(QuantTiny, NullTiny)})})
      S2 == {Loop(q[1], q[2], f, Grp(<<x, y>>)) : q \in QuantTiny, f \in BOOLEAN, x \in NullCore \ {NullCap}, y \in NullCore \ {NullCap}}
      O2 == {Loop(q[1], q[2], f, Or(x, y)) : q \in QuantTiny, f \in BOOLEAN, x \in NullCore \ {NullCap}, y \in NullCore \ {NullCap}}
      R1 == { Sub("s", <<Loop(0, 1, FALSE, La)>>) }
  IN {<<l>> : l \in D1 \cup D2 \cup D3 \cup S2 \cup O2}
     \cup {<<l, Lb>> : l \in D1} \cup {<<La, l>> : l \in D1}
     \cup {<<Sub("s", <<Loop(0, 1, FALSE, La)>>), Loop(q[1], q[2], f, Ref("s"))>> : q \in QuantNull, f \in BOOLEAN}
     \cup {<<Sub("s", <<Loop(0, -1, FALSE, Anc("lineend"))>>), Loop(q[1], q[2], f, Grp(<<Ref("s"), Ref("s")>>))>> : q \in QuantNull, f \in BOOLEAN}
     \* guarded recursion: the subroutine consumes before it recurses
     \cup {<<Sub("s", <<x, Loop(q[1], q[2], f, Ref("s"))>>)>> : x \in {NotIn(<<Lb>>), Cls("any"), NotLit(<<bb>>), La, NotCls("whitespace"), In(<<La, Lit(<<sp>>)>>)},
                                                                q \in {<<0, 1>>, <<0, -1>>}, f \in BOOLEAN}
     \cup {<<Sub("s", <<x, Or(Grp(<<Ref("s")>>), Grp(<<>>))>>), Lb>> : x \in {NotIn(<<Lb>>), Cls("any"), La}}
     \cup {<<Sub("s", <<x, Loop(0, 1, FALSE, Grp(<<Loop(0, -1, FALSE, Anc("lineend")), Ref("s")>>))>>)>> : x \in {NotIn(<<Lb>>), La}}
=============================================================================
