------------------------------- MODULE Bytes -------------------------------
(* Byte strings.  Texts, literals and file contents are sequences of byte   *)
(* values 0..255 (never TLA+ strings: TLC cannot index strings).            *)
(* Offsets are 0-based as in the implementation; sequences are 1-based, so  *)
(* the byte at offset o of t is t[o+1] and t[a..b) is SubSeq(t, a+1, b).    *)
EXTENDS Integers, Sequences, FiniteSets

Byte == 0..255

Slice(t, a, b) == SubSeq(t, a + 1, b)          \* t[a..b), 0-based half-open
At(t, o) == t[o + 1]                            \* byte at 0-based offset o

IsDigit(b)  == b >= 48 /\ b <= 57
IsUpper(b)  == b >= 65 /\ b <= 90
IsLower(b)  == b >= 97 /\ b <= 122
IsLetter(b) == IsUpper(b) \/ IsLower(b)
IsWordByte(b) == IsLetter(b) \/ IsDigit(b) \/ b = 95
IsSpace(b)  == b \in {32, 9, 10, 13}

Fold(b) == IF IsUpper(b) THEN b + 32 ELSE b
FoldSeqB(s) == [i \in 1..Len(s) |-> Fold(s[i])]
EqFold(a, b) == FoldSeqB(a) = FoldSeqB(b)

(* lexicographic order on byte strings (Go string comparison)               *)
RECURSIVE LexLE(_, _)
LexLE(a, b) ==
  IF a = <<>> THEN TRUE
  ELSE IF b = <<>> THEN FALSE
  ELSE IF a[1] < b[1] THEN TRUE
  ELSE IF a[1] > b[1] THEN FALSE
  ELSE LexLE(Tail(a), Tail(b))
LexLT(a, b) == LexLE(a, b) /\ a # b

MaxOf(S) == CHOOSE x \in S : \A y \in S : y <= x
MinOf(S) == CHOOSE x \in S : \A y \in S : x <= y

(* 1-based line of a 0-based offset: 1 + number of newlines before it       *)
LineOf(t, off) == 1 + Cardinality({i \in 1..off : t[i] = 10})
(* 1-based byte column of a 0-based offset within its line                  *)
ColOf(t, off) ==
  LET nls == {i \in 1..off : t[i] = 10}
  IN  off - (IF nls = {} THEN 0 ELSE MaxOf(nls)) + 1

(* decimal rendering / parsing (strconv.Itoa / Atoi-or-0)                   *)
RECURSIVE ItoaPos(_)
ItoaPos(n) == IF n < 10 THEN <<48 + n>> ELSE ItoaPos(n \div 10) \o <<48 + (n % 10)>>
Itoa(n) == IF n < 0 THEN <<45>> \o ItoaPos(0 - n) ELSE ItoaPos(n)

AllDigits(s) == s # <<>> /\ \A i \in 1..Len(s) : IsDigit(s[i])
RECURSIVE DigitsVal(_, _)
DigitsVal(s, acc) == IF s = <<>> THEN acc ELSE DigitsVal(Tail(s), acc * 10 + (s[1] - 48))
(* strconv.Atoi accepts an optional sign followed by decimal digits         *)
Atoi0(s) ==
  IF s = <<>> THEN 0
  ELSE IF s[1] \in {43, 45} /\ AllDigits(Tail(s))
       THEN (IF s[1] = 45 THEN 0 - DigitsVal(Tail(s), 0) ELSE DigitsVal(Tail(s), 0))
  ELSE IF AllDigits(s) THEN DigitsVal(s, 0)
  ELSE 0

RECURSIVE Cat(_)
Cat(ss) == IF ss = <<>> THEN <<>> ELSE Head(ss) \o Cat(Tail(ss))

(* all byte strings over alphabet S of length lo..hi                        *)
RECURSIVE StringsOfLen(_, _)
StringsOfLen(S, n) ==
  IF n = 0 THEN {<<>>}
  ELSE {<<a>> \o w : a \in S, w \in StringsOfLen(S, n - 1)}
StringsUpTo(S, lo, hi) == UNION {StringsOfLen(S, n) : n \in lo..hi}
=============================================================================
