-------------------------------- MODULE Expr --------------------------------
(* The process language of transforms and predicates: values, coercions,    *)
(* expression evaluation, statement execution, the static checker.          *)
(* Anchors: libvore/engine/execute.go (Eval/Exec),                           *)
(*          libvore/bytecode/semanticcheck.go (TypeOf/Check),                *)
(*          docs/language/LanguageDetails.md (the two tables).               *)
EXTENDS Bytes, Integers, Sequences, FiniteSets, TLC

(* ---------------------------------------------------------------- values *)
VS(s) == [ty |-> "s", s |-> s, n |-> 0, b |-> FALSE]
VN(n) == [ty |-> "n", s |-> <<>>, n |-> n, b |-> FALSE]
VB(b) == [ty |-> "b", s |-> <<>>, n |-> 0, b |-> b]

TrueS  == <<116, 114, 117, 101>>        \* "true"
FalseS == <<102, 97, 108, 115, 101>>    \* "false"

(* coercion matrix of LanguageDetails.md                                    *)
ToS(v) == CASE v.ty = "s" -> v.s
            [] v.ty = "n" -> Itoa(v.n)
            [] v.ty = "b" -> IF v.b THEN TrueS ELSE FalseS
ToN(v) == CASE v.ty = "s" -> Atoi0(v.s)
            [] v.ty = "n" -> v.n
            [] v.ty = "b" -> IF v.b THEN 1 ELSE 0
ToB(v) == CASE v.ty = "s" -> v.s # <<>>
            [] v.ty = "n" -> v.n # 0
            [] v.ty = "b" -> v.b

B2N(b) == IF b THEN 1 ELSE 0

(* Go integer division / remainder truncate toward zero                     *)
Abs(n) == IF n < 0 THEN 0 - n ELSE n
Sgn(n) == IF n < 0 THEN 0 - 1 ELSE 1
TDiv(a, b) == Sgn(a) * Sgn(b) * (Abs(a) \div Abs(b))
TMod(a, b) == a - b * TDiv(a, b)

ArithOps == {"+", "-", "*", "/", "%"}
CmpOps   == {"==", "!=", "<", ">", "<=", ">="}
BoolOps  == {"and", "or"}

NumCmp(op, a, b) == CASE op = "==" -> a = b  [] op = "!=" -> a # b
                      [] op = "<"  -> a < b  [] op = ">"  -> a > b
                      [] op = "<=" -> a <= b [] op = ">=" -> a >= b
StrCmp(op, a, b) == CASE op = "==" -> a = b  [] op = "!=" -> a # b
                      [] op = "<"  -> LexLT(a, b) [] op = ">"  -> LexLT(b, a)
                      [] op = "<=" -> LexLE(a, b) [] op = ">=" -> LexLE(b, a)
NumArith(op, a, b) == CASE op = "+" -> a + b [] op = "-" -> a - b [] op = "*" -> a * b
                        [] op = "/" -> TDiv(a, b) [] op = "%" -> TMod(a, b)

(* A value the language does not define: division or remainder by zero.     *)
UndefBy(why) == [ty |-> "undef", s |-> <<>>, n |-> 0, b |-> FALSE, why |-> why]
Undef == UndefBy("divzero")
UndefOp == UndefBy("optype")        \* operator applied to a dynamic type the table does not list
IsUndef(v) == v.ty = "undef"

(* the documented operator table: the left operand's type selects the       *)
(* operation, the right operand is coerced to it                            *)
BinOp(op, l, r) ==
  IF IsUndef(l) THEN l ELSE IF IsUndef(r) THEN r
  ELSE CASE l.ty = "s" ->
         IF op = "+" THEN VS(ToS(l) \o ToS(r))
         ELSE IF op \in CmpOps THEN VB(StrCmp(op, ToS(l), ToS(r)))
         ELSE IF op \in BoolOps \/ r.ty # "n" THEN UndefOp
         ELSE IF op \in {"/", "%"} /\ ToN(r) = 0 THEN Undef
         ELSE VN(NumArith(op, ToN(l), ToN(r)))          \* string coerced: - * / % with a number on the right
       [] l.ty = "b" ->
         IF op = "and" THEN VB(l.b /\ ToB(r))
         ELSE IF op = "or" THEN VB(l.b \/ ToB(r))
         ELSE IF op \in ArithOps THEN UndefOp
         ELSE VB(NumCmp(op, B2N(l.b), B2N(ToB(r))))
       [] l.ty = "n" ->
         IF op \in CmpOps THEN VB(NumCmp(op, l.n, ToN(r)))
         ELSE IF op \in BoolOps THEN UndefOp
         ELSE IF op \in {"/", "%"} /\ ToN(r) = 0 THEN Undef
         ELSE VN(NumArith(op, l.n, ToN(r)))

UnOp(op, v) ==
  IF IsUndef(v) THEN v
  ELSE CASE op = "not"  -> VB(~ToB(v))
         [] op = "head" -> LET s == ToS(v) IN VS(IF s = <<>> THEN <<>> ELSE <<s[1]>>)
         [] op = "tail" -> LET s == ToS(v) IN VS(IF Len(s) <= 1 THEN <<>> ELSE Tail(s))

(* ----------------------------------------------------------- expressions *)
(* [k:"str",v] [k:"num",v] [k:"bool",v] [k:"var",name] [k:"un",op,e]         *)
(* [k:"bin",op,l,r]                                                          *)
RECURSIVE Eval(_, _)
Eval(e, env) ==
  CASE e.k = "str"  -> VS(e.v)
    [] e.k = "num"  -> VN(e.v)
    [] e.k = "bool" -> VB(e.v)
    [] e.k = "var"  -> IF e.name \in DOMAIN env THEN env[e.name] ELSE VS(<<>>)
    [] e.k = "un"   -> UnOp(e.op, Eval(e.e, env))
    [] e.k = "bin"  -> BinOp(e.op, Eval(e.l, env), Eval(e.r, env))
    [] e.k = "toks" -> Eval(e.e, env)


(* ------------------------------------------------ concrete syntax, levels *)
(* Tokens of a process expression:                                          *)
(*   [t:"num",n] [t:"str",s] [t:"w",v] (word: true false not head tail and  *)
(*   or, identifiers) [t:"op",v] [t:"lp"] [t:"rp"]                          *)
(* Documented precedence: * / %  >  + -  >  comparisons  >  and or; one     *)
(* level associates to the left; prefix operators bind tightest.            *)
Level(op) == IF op \in BoolOps THEN 1 ELSE IF op \in CmpOps THEN 2
             ELSE IF op \in {"+", "-"} THEN 3 ELSE 4
(* The code splits comparisons into two sub-levels; the documents name one  *)
(* class.  A comparison directly under a comparison of the other sub-class  *)
(* is therefore always written with parentheses (DESIGN.md section 5).      *)
CmpClass(op) == IF op \in {"==", "!="} THEN 1 ELSE IF op \in CmpOps THEN 2 ELSE 0
Mixed(op, c) == c.k = "bin" /\ CmpClass(op) # 0 /\ CmpClass(c.op) # 0 /\ CmpClass(op) # CmpClass(c.op)

TLP == [t |-> "lp"]   TRP == [t |-> "rp"]
TW(v) == [t |-> "w", v |-> v]
TOp(v) == IF v \in BoolOps THEN TW(v) ELSE [t |-> "op", v |-> v]
Paren(ts) == <<TLP>> \o ts \o <<TRP>>
LeafTok(e) ==
  CASE e.k = "num"  -> [t |-> "num", n |-> e.v]
    [] e.k = "str"  -> [t |-> "str", s |-> e.v]
    [] e.k = "bool" -> TW(IF e.v THEN "true" ELSE "false")
    [] e.k = "var"  -> TW(e.name)

RECURSIVE RenderFull(_), RenderMin(_)
RenderFull(e) ==
  CASE e.k = "un"  -> Paren(<<TW(e.op)>> \o RenderFull(e.e))
    [] e.k = "bin" -> Paren(RenderFull(e.l) \o <<TOp(e.op)>> \o RenderFull(e.r))
    [] OTHER       -> <<LeafTok(e)>>
RenderMin(e) ==
  CASE e.k = "un"  -> <<TW(e.op)>> \o (IF e.e.k = "bin" THEN Paren(RenderMin(e.e)) ELSE RenderMin(e.e))
    [] e.k = "bin" ->
         LET lp == e.l.k = "bin" /\ (Level(e.l.op) < Level(e.op) \/ Mixed(e.op, e.l))
             rp == e.r.k = "bin" /\ (Level(e.r.op) <= Level(e.op) \/ Mixed(e.op, e.r))
         IN (IF lp THEN Paren(RenderMin(e.l)) ELSE RenderMin(e.l)) \o <<TOp(e.op)>>
              \o (IF rp THEN Paren(RenderMin(e.r)) ELSE RenderMin(e.r))
    [] OTHER       -> <<LeafTok(e)>>

(* the documented grammar as a precedence-climbing parser over tokens;      *)
(* result [ok, e, rest]                                                     *)
PrefixOps == {"not", "head", "tail"}
IsBinTok(tk) == (tk.t = "op") \/ (tk.t = "w" /\ tk.v \in BoolOps)
PFail == [ok |-> FALSE, e |-> [k |-> "bool", v |-> FALSE], rest |-> <<>>]
RECURSIVE ParseE(_, _), ParsePrimary(_), ParseTail(_, _, _)
ParsePrimary(ts) ==
  IF ts = <<>> THEN PFail
  ELSE LET h == ts[1] IN
    CASE h.t = "num" -> [ok |-> TRUE, e |-> [k |-> "num", v |-> h.n], rest |-> Tail(ts)]
      [] h.t = "str" -> [ok |-> TRUE, e |-> [k |-> "str", v |-> h.s], rest |-> Tail(ts)]
      [] h.t = "lp"  -> LET r == ParseE(Tail(ts), 1)
                        IN IF r.ok /\ r.rest # <<>> /\ r.rest[1].t = "rp"
                           THEN [ok |-> TRUE, e |-> r.e, rest |-> Tail(r.rest)] ELSE PFail
      [] h.t = "w"   -> IF h.v \in {"true", "false"} THEN [ok |-> TRUE, e |-> [k |-> "bool", v |-> h.v = "true"], rest |-> Tail(ts)]
                        ELSE IF h.v \in PrefixOps
                             THEN LET r == ParseE(Tail(ts), 5)       \* tighter than every infix level
                                  IN IF r.ok THEN [ok |-> TRUE, e |-> [k |-> "un", op |-> h.v, e |-> r.e], rest |-> r.rest] ELSE PFail
                        ELSE IF h.v \in BoolOps THEN PFail
                        ELSE [ok |-> TRUE, e |-> [k |-> "var", name |-> h.v], rest |-> Tail(ts)]
      [] OTHER       -> PFail
ParseTail(lhs, ts, minLevel) ==
  IF ts = <<>> \/ ~IsBinTok(ts[1]) THEN [ok |-> TRUE, e |-> lhs, rest |-> ts]
  ELSE LET op == ts[1].v  lv == Level(ts[1].v) IN
       IF lv < minLevel THEN [ok |-> TRUE, e |-> lhs, rest |-> ts]
       ELSE LET r == ParseE(Tail(ts), lv + 1)                        \* left associative
            IN IF ~r.ok THEN PFail
               ELSE ParseTail([k |-> "bin", op |-> op, l |-> lhs, r |-> r.e], r.rest, minLevel)
ParseE(ts, minLevel) ==
  LET p == ParsePrimary(ts) IN IF ~p.ok THEN PFail ELSE ParseTail(p.e, p.rest, minLevel)
ParseExpr(ts) == LET r == ParseE(ts, 1) IN IF r.ok /\ r.rest = <<>> THEN r ELSE PFail

(* an expression written out with tokens: evaluates as its tree             *)
WithToks(e, toks) == [k |-> "toks", e |-> e, toks |-> toks]

(* ------------------------------------------------------------ statements *)
(* [k:"set",name,e] [k:"if",c,th,el] [k:"ret",e] [k:"dbg",e] [k:"loop",body] *)
(* [k:"brk"] [k:"cont"]                                                      *)
(* outcome: [env, st \in {"next","brk","cont","ret","undef","fuel"}, val]    *)
PBind(env, x, v) == [y \in DOMAIN env \cup {x} |-> IF y = x THEN v ELSE env[y]]

RECURSIVE ExecList(_, _, _, _), ExecStmt(_, _, _), ExecLoop(_, _, _)
ExecStmt(s, env, fuel) ==
  CASE s.k = "set"  -> LET v == Eval(s.e, env)
                       IN IF IsUndef(v) THEN [env |-> env, st |-> "undef", val |-> v, fuel |-> fuel]
                          ELSE [env |-> PBind(env, s.name, v), st |-> "next", val |-> v, fuel |-> fuel]
    [] s.k = "ret"  -> LET v == Eval(s.e, env)
                       IN [env |-> env, st |-> IF IsUndef(v) THEN "undef" ELSE "ret", val |-> v, fuel |-> fuel]
    [] s.k = "dbg"  -> LET v == Eval(s.e, env)
                       IN [env |-> env, st |-> IF IsUndef(v) THEN "undef" ELSE "next", val |-> v, fuel |-> fuel]
    [] s.k = "if"   -> LET c == Eval(s.c, env)
                       IN IF IsUndef(c) THEN [env |-> env, st |-> "undef", val |-> c, fuel |-> fuel]
                          ELSE IF ToB(c) THEN ExecList(s.th, 1, env, fuel) ELSE ExecList(s.el, 1, env, fuel)
    [] s.k = "brk"  -> [env |-> env, st |-> "brk", val |-> VS(<<>>), fuel |-> fuel]
    [] s.k = "cont" -> [env |-> env, st |-> "cont", val |-> VS(<<>>), fuel |-> fuel]
    [] s.k = "loop" -> ExecLoop(s.body, env, fuel)

ExecList(ss, i, env, fuel) ==
  IF i > Len(ss) THEN [env |-> env, st |-> "next", val |-> VS(<<>>), fuel |-> fuel]
  ELSE LET r == ExecStmt(ss[i], env, fuel)
       IN IF r.st # "next" THEN r ELSE ExecList(ss, i + 1, r.env, r.fuel)

ExecLoop(body, env, fuel) ==
  IF fuel = 0 THEN [env |-> env, st |-> "fuel", val |-> VS(<<>>), fuel |-> 0]
  ELSE LET r == ExecList(body, 1, env, fuel - 1)
       IN CASE r.st \in {"ret", "undef", "fuel"} -> r
            [] r.st = "brk" -> [r EXCEPT !.st = "next"]
            [] OTHER -> ExecLoop(body, r.env, r.fuel)      \* "cont" or "next": go round again

LoopFuel == 64

(* A transform's contribution: the returned value as text.  A transform     *)
(* that ends without `return` contributes the text "true" (code behaviour;  *)
(* the documents are silent -- quirk cell, see DESIGN.md section 5).        *)
RunProcess(stmts, env) == ExecList(stmts, 1, env, LoopFuel)
TransformText(stmts, env) ==
  LET r == RunProcess(stmts, env)
  IN  IF r.st = "ret" THEN [ok |-> TRUE, s |-> ToS(r.val), why |-> "ret"]
      ELSE IF r.st = "next" THEN [ok |-> TRUE, s |-> TrueS, why |-> "noreturn"]
      ELSE [ok |-> FALSE, s |-> <<>>, why |-> IF r.st = "undef" THEN r.val.why ELSE r.st]
(* A predicate holds unless it returns a false value; no `return` = true    *)
PredicateHolds(stmts, env) ==
  LET r == RunProcess(stmts, env)
  IN  IF r.st = "ret" THEN [ok |-> TRUE, b |-> ToB(r.val), why |-> "ret"]
      ELSE IF r.st = "next" THEN [ok |-> TRUE, b |-> TRUE, why |-> "noreturn"]
      ELSE [ok |-> FALSE, b |-> FALSE, why |-> IF r.st = "undef" THEN r.val.why ELSE r.st]

(* ---------------------------------------------------------- static types *)
(* documented typing rules; "e" = error                                     *)
BinType(op, lt, rt) ==
  IF lt = "e" \/ rt = "e" THEN "e"
  ELSE CASE lt = "s" -> IF op = "+" THEN "s"
                        ELSE IF op \in CmpOps THEN "b"
                        ELSE IF op \in {"-", "*", "/", "%"} /\ rt = "n" THEN "n"
                        ELSE "e"
         [] lt = "b" -> IF op \in BoolOps \cup CmpOps THEN "b" ELSE "e"
         [] lt = "n" -> IF op \in CmpOps THEN "b"
                        ELSE IF op \in ArithOps THEN "n"
                        ELSE "e"
UnType(op, t) ==
  IF t = "e" THEN "e"
  ELSE IF op = "not" /\ t = "b" THEN "b"
  ELSE IF op \in {"head", "tail"} /\ t = "s" THEN "s"
  ELSE "e"

RECURSIVE TypeOf(_, _)
TypeOf(e, tenv) ==
  CASE e.k = "str"  -> "s"
    [] e.k = "num"  -> "n"
    [] e.k = "bool" -> "b"
    [] e.k = "var"  -> IF e.name \in DOMAIN tenv THEN tenv[e.name] ELSE "s"
    [] e.k = "un"   -> UnType(e.op, TypeOf(e.e, tenv))
    [] e.k = "bin"  -> BinType(e.op, TypeOf(e.l, tenv), TypeOf(e.r, tenv))
    [] e.k = "toks" -> TypeOf(e.e, tenv)

TEnv0 == [x \in {"match", "matchLength"} |-> IF x = "match" THEN "s" ELSE "n"]

(* Check: [ok, tenv].  ctx \in {"pred","trans"}; break/continue only inside *)
(* `loop` (lexically, at any depth)                                         *)
RECURSIVE CheckList(_, _, _, _, _), CheckStmt(_, _, _, _)
CheckStmt(s, tenv, ctx, inLoop) ==
  CASE s.k = "set"  -> LET t == TypeOf(s.e, tenv)
                       IN IF t = "e" THEN [ok |-> FALSE, tenv |-> tenv]
                          ELSE [ok |-> TRUE, tenv |-> PBind(tenv, s.name, t)]
    [] s.k = "ret"  -> LET t == TypeOf(s.e, tenv)
                       IN [ok |-> IF ctx = "pred" THEN t = "b" ELSE t \in {"s", "n"}, tenv |-> tenv]
    [] s.k = "dbg"  -> [ok |-> TypeOf(s.e, tenv) # "e", tenv |-> tenv]
    [] s.k = "if"   -> IF TypeOf(s.c, tenv) # "b" THEN [ok |-> FALSE, tenv |-> tenv]
                       ELSE LET a == CheckList(s.th, 1, tenv, ctx, inLoop)
                            IN IF ~a.ok THEN a ELSE CheckList(s.el, 1, a.tenv, ctx, inLoop)
    [] s.k = "brk"  -> [ok |-> inLoop, tenv |-> tenv]
    [] s.k = "cont" -> [ok |-> inLoop, tenv |-> tenv]
    [] s.k = "loop" -> CheckList(s.body, 1, tenv, ctx, TRUE)
CheckList(ss, i, tenv, ctx, inLoop) ==
  IF i > Len(ss) THEN [ok |-> TRUE, tenv |-> tenv]
  ELSE LET r == CheckStmt(ss[i], tenv, ctx, inLoop)
       IN IF ~r.ok THEN r ELSE CheckList(ss, i + 1, r.tenv, ctx, inLoop)

Check(stmts, ctx) == CheckList(stmts, 1, TEnv0, ctx, FALSE).ok
=============================================================================
