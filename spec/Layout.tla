------------------------------- MODULE Layout -------------------------------
(* C15: layout is a separate layer.  A program is its sequence of           *)
(* significant tokens; between two tokens any filler (blanks, newlines,     *)
(* tabs, line comment, block comment) may be inserted, a gap may be closed  *)
(* when the two tokens do not need a separator (juxtaposition re-lexes to   *)
(* the same two tokens), and keywords may change letter case.  One action   *)
(* per kind of edit; TLC enumerates every variant reachable in one step     *)
(* from every corpus program and checks on the lexer automaton that the     *)
(* significant tokens are preserved.                                        *)
EXTENDS Lexer, Json, Sequences

CONSTANT CorpusFile      \* ndjson: {"id": n, "src": [bytes]}
Corpus == ndJsonDeserialize(CorpusFile)

Fillers == << <<32>>, <<10>>, <<9, 9>>, <<45, 45, 32, 99, 10>>, <<45, 45, 40, 99, 41, 45, 45>>,
              <<32, 45, 45, 40, 99, 10, 41, 45, 45, 32>>,
              \* several comments in one gap
              <<45, 45, 40, 99, 41, 45, 45, 32, 45, 45, 40, 100, 41, 45, 45>>, <<45, 45, 32, 99, 10, 45, 45, 32, 100, 10>>,
              <<45, 45, 32, 99, 10, 45, 45, 40, 100, 41, 45, 45, 10>>,
              \* comment edges: `)` and `-` inside a block comment right before its end, empty comments, three dashes
              <<45, 45, 40, 41, 41, 45, 45>>, <<45, 45, 40, 41, 45, 41, 45, 45>>, <<45, 45, 40, 45, 41, 45, 45>>, <<45, 45, 40, 41, 45, 45>>,
              <<45, 45, 45, 120, 10>>, <<45, 45, 10>>, <<45, 45, 40, 41, 45, 32, 41, 45, 45>>,
              \* the other blank characters: form feed, vertical tab, carriage return
              <<12>>, <<11>>, <<13, 10>>, <<32, 12, 9, 11>> >>

VARIABLES pi, src, edit, ot
lvars == <<pi, src, edit, ot>>

SigIdx(toks) == SelectSeq([i \in 1..Len(toks) |-> i], LAMBDA i : toks[i].kind \notin {"WS", "COMMENT"})
(* the lexing of the original program is computed once, in the initial      *)
(* state, and carried along (ot)                                            *)
Orig == Corpus[pi].src
OrigOK == ot.ok
OrigToks == ot.toks
OrigSig == ot.sig

Init == /\ pi \in 1..Len(Corpus) /\ src = Corpus[pi].src /\ edit = [k |-> "original"]
        /\ LET L == Lex(Corpus[pi].src) IN ot = [ok |-> L.ok, toks |-> L.toks, sig |-> SigIdx(L.toks)]

InsertAt(s, off, f) == SubSeq(s, 1, off) \o f \o SubSeq(s, off + 1, Len(s))

(* a gap is the boundary before significant token j (j >= 2): insert the     *)
(* filler right before that token                                            *)
Widen ==
  /\ edit.k = "original" /\ OrigOK
  /\ \E j \in 2..Len(OrigSig) : \E f \in 1..Len(Fillers) :
       LET t == OrigToks[OrigSig[j]] IN
       /\ src' = InsertAt(Orig, t.s, Fillers[f])
       /\ edit' = [k |-> "widen", gap |-> j, filler |-> f]
  /\ UNCHANGED <<pi, ot>>

(* two tokens need a separator iff their juxtaposition does not re-lex to   *)
(* the same two tokens                                                       *)
Spell(t) == SubSeq(Orig, t.s + 1, t.e)
NeedsSep(a, b) ==
  LET r == Lex(Spell(a) \o Spell(b))
  IN ~(r.ok /\ Len(r.toks) = 2 /\ TokKey(r.toks[1]) = TokKey(a) /\ TokKey(r.toks[2]) = TokKey(b))

(* close a gap made of whitespace only, when no separator is needed         *)
Close ==
  /\ edit.k = "original" /\ OrigOK
  /\ \E j \in 2..Len(OrigSig) :
       LET ia == OrigSig[j - 1]  ib == OrigSig[j]
           a == OrigToks[ia]  b == OrigToks[ib]
       IN /\ ib > ia + 1
          /\ \A m \in (ia + 1)..(ib - 1) : OrigToks[m].kind = "WS"
          /\ ~NeedsSep(a, b)
          /\ src' = SubSeq(Orig, 1, a.e) \o SubSeq(Orig, b.s + 1, Len(Orig))
          /\ edit' = [k |-> "close", gap |-> j]
  /\ UNCHANGED <<pi, ot>>

UpperB(c) == IF c >= 97 /\ c <= 122 THEN c - 32 ELSE c
(* change the letter case of one word token (upper case / capitalised); the *)
(* harness applies it to keywords only (identifiers are case-sensitive)     *)
Recase ==
  /\ edit.k = "original" /\ OrigOK
  /\ \E j \in 1..Len(OrigSig) : \E style \in {"upper", "capital"} :
       LET t == OrigToks[OrigSig[j]] IN
       /\ t.kind = "WORD"
       /\ src' = [i \in 1..Len(Orig) |->
                    IF i > t.s /\ i <= t.e /\ (style = "upper" \/ i = t.s + 1) THEN UpperB(Orig[i]) ELSE Orig[i]]
       /\ edit' = [k |-> "recase", tok |-> j, style |-> style]
  /\ UNCHANGED <<pi, ot>>

Next == Widen \/ Close \/ Recase
Spec == Init /\ [][Next]_lvars

(* inserting fillers / closing unneeded gaps preserves the significant      *)
(* tokens; recasing preserves them up to letter case                        *)
LayoutPreservesLex ==
  (OrigOK /\ edit.k # "original") =>
    LET L == Lex(src)
        a == Keys(Significant(L.toks))
        b == Keys(Significant(OrigToks))
    IN /\ L.ok
       /\ IF edit.k = "recase"
          THEN Len(a) = Len(b) /\ \A i \in 1..Len(a) : a[i].kind = b[i].kind /\ LowerSeq(a[i].buf) = LowerSeq(b[i].buf)
          ELSE a = b

Emit == PrintT(ToJson([p |-> Corpus[pi].id, edit |-> edit, src |-> src]))
=============================================================================
