------------------------------ MODULE EvalRegex ------------------------------
(* C14 on the specification: for every regex case and every text, the       *)
(* documented translation evaluated by the pattern semantics equals the     *)
(* conventional regex semantics (spans, order, group bindings).  The        *)
(* expectation printed is the conventional one.                             *)
EXTENDS Regex, Json, SequencesExt

CONSTANT CaseFile
Cases == ndJsonDeserialize(CaseFile)

VARIABLE i
Init == i \in 1..Len(Cases)
Next == UNCHANGED i
Spec == Init /\ [][Next]_i

TextsOf(c) == IF "texts" \in DOMAIN c THEN c.texts
              ELSE SetToSeq(StringsUpTo({c.sigma[j] : j \in 1..Len(c.sigma)}, c.lo, c.hi))

Conv(c, t) == RegexFindAll(t, c.regex)
Trans(c, t) == FindAll(Ctx(t, <<>>, ToPattern(c.regex), QuirkCode), ToPattern(c.regex))
Same(a, b) ==
  /\ Len(a) = Len(b)
  /\ \A j \in 1..Len(a) : a[j].s = b[j].s /\ a[j].e = b[j].e /\ a[j].n = b[j].n /\ a[j].vars = b[j].vars

(* the translation table is right                                           *)
TranslationAgrees ==
  \A j \in 1..Len(TextsOf(Cases[i])) : Same(Conv(Cases[i], TextsOf(Cases[i])[j]), Trans(Cases[i], TextsOf(Cases[i])[j]))

Rec(t, m) == [s |-> m.s, e |-> m.e, n |-> m.n, vars |-> m.vars,
              ls |-> LineOf(t, m.s), le |-> LineOf(t, m.e), cs |-> ColOf(t, m.s), ce |-> ColOf(t, m.e)]
Emit ==
  LET c == Cases[i]  T == TextsOf(c) IN
  PrintT(ToJson([id |-> c.id,
                 r |-> [j \in 1..Len(T) |->
                          [t |-> T[j], ms |-> [k \in 1..Len(Conv(c, T[j])) |-> Rec(T[j], Conv(c, T[j])[k])],
                           firm |-> TRUE, undef |-> FALSE, noret |-> FALSE]]]))
=============================================================================
