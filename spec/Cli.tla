--------------------------------- MODULE Cli ---------------------------------
(* The command line tool as a decision procedure over a flag vector         *)
(* followed by effects: parse flags -> validate -> compile -> list files    *)
(* -> run -> render / write.  Anchors: main.go, docs/GettingStarted.md.     *)
(* State: phase, exit status, what was printed, which output files were     *)
(* written, whether replace effects were applied to the searched files.     *)
EXTENDS Integers, Sequences, FiniteSets, Json, TLC

SrcKinds  == {"com", "src", "both", "neither", "srcmissing"}     \* srcmissing: -src names a file that does not exist
StdFmts   == {"text", "json", "fjson", "both"}
Modes     == {"default", "NEW", "NOTHING", "OVERWRITE", "BOGUS"}
Programs  == {"find", "findnone", "replace", "failing", "multi"}      \* multi: two commands (results command by command)
FileSets  == {"one", "glob", "none", "absent"}

Configs == [src : SrcKinds, fmt : StdFmts, jfile : BOOLEAN, fjfile : BOOLEAN, mode : Modes,
            noout : BOOLEAN, prog : Programs, files : FileSets]

VARIABLES cfg, phase, exit, printed, wrote, applied, msg
cvars == <<cfg, phase, exit, printed, wrote, applied, msg>>

Init ==
  /\ cfg \in Configs
  /\ phase = "parse" /\ exit = -1 /\ printed = "" /\ wrote = {} /\ applied = "none" /\ msg = FALSE

Fail(code) == /\ exit' = code /\ msg' = TRUE /\ phase' = "exit" /\ UNCHANGED <<cfg, printed, wrote, applied>>
Go(p) == phase' = p /\ UNCHANGED <<cfg, exit, printed, wrote, applied, msg>>

(* flag.Parse: an unknown replace mode is refused by the flag package       *)
ParseFlags ==
  /\ phase = "parse"
  /\ IF cfg.mode = "BOGUS" THEN Fail(2) ELSE Go("validate")

Validate ==
  /\ phase = "validate"
  /\ IF cfg.files = "absent" \/ cfg.src \in {"both", "neither"} \/ cfg.fmt = "both" THEN Fail(1) ELSE Go("compile")

CompileSrc ==
  /\ phase = "compile"
  /\ IF cfg.prog = "failing" \/ cfg.src = "srcmissing" THEN Fail(1) ELSE Go("list")

ListFiles ==
  /\ phase = "list"
  /\ IF cfg.files = "none"
     THEN /\ exit' = 0 /\ printed' = "nofiles" /\ phase' = "exit" /\ UNCHANGED <<cfg, wrote, applied, msg>>
     ELSE Go("run")

EffMode == IF cfg.mode = "default" THEN "NEW" ELSE cfg.mode
RunLib ==
  /\ phase = "run"
  /\ applied' = IF cfg.prog = "replace" THEN EffMode ELSE "none"
  /\ phase' = "render"
  /\ UNCHANGED <<cfg, exit, printed, wrote, msg>>

HasMatches == cfg.prog \in {"find", "replace", "multi"}
Render ==
  /\ phase = "render"
  /\ exit' = 0 /\ phase' = "exit"
  /\ IF cfg.noout THEN UNCHANGED <<printed, wrote>>
     ELSE IF ~HasMatches THEN printed' = "nomatches" /\ UNCHANGED wrote
     ELSE /\ printed' = cfg.fmt
          /\ wrote' = (IF cfg.jfile THEN {"json"} ELSE {}) \cup (IF cfg.fjfile THEN {"fjson"} ELSE {})
  /\ UNCHANGED <<cfg, applied, msg>>

Next == ParseFlags \/ Validate \/ CompileSrc \/ ListFiles \/ RunLib \/ Render
Spec == Init /\ [][Next]_cvars /\ WF_cvars(Next)

(* ------------------------------------------------------------- invariants *)
Documented ==
  cfg.src \in {"com", "src"} /\ cfg.fmt # "both" /\ cfg.mode # "BOGUS" /\ cfg.files # "absent" /\ cfg.prog # "failing"
Invalid == ~Documented

(* every documented invocation exits 0                                      *)
DocumentedExitsZero == (phase = "exit" /\ Documented) => exit = 0
(* invalid combinations, unknown modes, compile errors: non-zero, a         *)
(* message, no file touched                                                 *)
InvalidRefused == (phase = "exit" /\ Invalid) => (exit # 0 /\ msg /\ applied = "none" /\ wrote = {} /\ printed = "")
(* with at least one match the chosen renderings are delivered              *)
Delivered ==
  (phase = "exit" /\ Documented /\ HasMatches /\ cfg.files \in {"one", "glob"} /\ ~cfg.noout) =>
     /\ printed = cfg.fmt
     /\ ("json" \in wrote) = cfg.jfile /\ ("fjson" \in wrote) = cfg.fjfile
(* replace honours the mode, NEW by default; find never modifies            *)
ModeHonoured ==
  (phase = "exit" /\ Documented /\ cfg.files \in {"one", "glob"}) =>
     applied = (IF cfg.prog = "replace" THEN (IF cfg.mode = "default" THEN "NEW" ELSE cfg.mode) ELSE "none")
Terminates == <>(phase = "exit")

Emit == phase = "exit" =>
  PrintT(ToJson([cfg |-> cfg, exit |-> exit, printed |-> printed, wrote |-> wrote, applied |-> applied, msg |-> msg]))
=============================================================================
